#!/bin/bash
# Self-validation of the monitors (never used by registered commands):
#   ./selftest.sh <patch.diff> <Cxx> [<Cxx> ...]
# copies /repo to a scratch directory outside /repo and /verif, applies the patch there, runs the
# quick checks against the copy (VERIF_REPO) with evidence/replays redirected to scratch, prints
# per check DETECTED (exit 1 with a VIOLATION line) or MISSED, and removes the copy.
set -u
patch="$(readlink -f "$1")"; shift
base="${VERIF_SELFTEST_DIR:-/var/tmp/verif-selftest}/$$"
mkdir -p "$base"
cp -r /repo "$base/repo"
rm -rf "$base/repo/.git"
( cd "$base/repo" && git init -q . >/dev/null 2>&1; git -C "$base/repo" apply --whitespace=nowarn "$patch" ) || { echo "PATCH-DOES-NOT-APPLY $patch"; rm -rf "$base"; exit 3; }
rc=0
for prop in "$@"; do
  out="$base/out-$prop"
  mkdir -p "$out"
  VERIF_REPO="$base/repo" VERIF_OUT_DIR="$out" /verif/run "$prop" "${TIER:-quick}" > "$out/log" 2>&1
  code=$?
  if [ $code -eq 1 ] && grep -q "^VIOLATION property=$prop" "$out/log"; then
    echo "DETECTED $prop $(basename "$patch"): $(grep -m1 '  sig:' "$out/log" | cut -c1-150)"
  elif [ $code -eq 2 ]; then
    echo "BUILD-ERROR $prop $(basename "$patch")"; head -5 "$out/log"; rc=2
  else
    echo "MISSED $prop $(basename "$patch") (exit $code): $(tail -1 "$out/log" | cut -c1-150)"; rc=1
  fi
done
rm -rf "$base" "/verif/bin/alt-$(echo "$base/repo" | cksum | cut -d' ' -f1)"
exit $rc
