#!/bin/bash
# Builds the harness once (plain and race-detector builds) to warm the build cache. Offline.
set -eu
cd "$(dirname "$0")"
export GOFLAGS=-mod=mod GOPROXY=off GOSUMDB=off GOTOOLCHAIN=local
mkdir -p bin evidence
( cd harness && go build -tags verif -o ../bin/vcheck ./cmd/vcheck )
( cd harness && go build -race -tags verif -o ../bin/vcheck.race ./cmd/vcheck )
echo "setup ok"
