#!/usr/bin/env python3
"""Writes /verif/MANIFEST.json from the table below (kept in one place so that it stays consistent)."""
import json, subprocess, os
V = os.path.dirname(os.path.dirname(os.path.abspath(__file__)))

hook_commits = subprocess.run(["git", "-C", "/repo", "log", "--format=%h %s", "--grep=^verif hooks"], capture_output=True, text=True).stdout.strip().splitlines()

# id: (level, technique, text, note, design_ref)
CHECKS = {
 "C01": ("exploration", "differential runtime monitoring: seeded autocommit histories through inline.Open compared step by step (plus probe reads after every step) with an executable reference model",
         "Every result of every call of several thousand seeded histories (hostile keys, boundary content lengths, irregular readers/writers) equals the reference model; held on what was run, not a proof.", "trusted: reference model refmodel, the OS file system", "3/C01"),
 "C02": ("exploration", "differential runtime monitoring: sequentially interleaved multi-transaction histories; every open transaction and the autocommit caller probe every key after every step; oracle = reference model; steps that open a second database in the process and writes whose metadata record fails (fault function) in the middle of histories",
         "All reads of all actors at all four levels after every step of seeded histories (up to 5 open transactions, collector passes in between) equal the model.", "trusted: reference model (RU accepts both datings of a committed value)", "3/C02"),
 "C03": ("exploration", "differential runtime monitoring: commit-focused histories, Commit/Rollback classes and all-key probes vs reference model; plus fault injection into the metadata writes of a Commit (every position, all levels) judged by autocommit / ReadUncommitted / RepeatableRead readers open across it and after reopen; Commit||Commit and Commit||Rollback on one transaction released by a spin barrier; hundreds of failed commits in a row; Commit with a context cancelled on the way (at its k-th consultation / by timer); second databases opened and failing metadata writes in the middle of histories; ReadUncommitted reader after cancelled commits; commits of 1001-3100 keys with a failing metadata write at chosen positions",
         "Both directions of 'fails iff write-write conflict' and all-or-nothing visibility are compared with the model on every commit/rollback of seeded histories.", "trusted: reference model", "3/C03"),
 "C05": ("exploration", "differential runtime monitoring across Close/Open in four process configurations (same process, decoy database first, two interleaved databases, process per segment), histories with more records than one iterator batch, long / non-ASCII / non-UTF-8 keys; databases of 2049-9000 records with keys of 1-2 MiB and commits of more than a thousand keys; simultaneous first writes into empty databases; hash-colliding keys; the server application restarted under a live gRPC client and its handles; reopen with a context that is already done; empty values; writes whose metadata record fails in the middle of histories (must leave no trace, before and after a reopen)",
         "State after every reopen and after overwrites following a reopen equals the model in all four process configurations.", "trusted: reference model", "3/C05"),
 "C09": ("exploration", "differential runtime monitoring: the same history re-run with the collector inserted at every position (probing order varied per variant); all probes must equal the collector-free model; role scheduled: the database's own scheduled collector job (1-250 ms) runs during writes whose content arrives slowly (3 ms - 1.3 s pauses), autocommit and transactional, inline and gRPC; snapshots held open across 1100-2600 overwrites of one key with passes in between",
         "For every base history the collector (and cleaner drain) is inserted at every position; no read of any actor changes, open readers read to the end.", "trusted: reference model; quiescence barrier", "3/C09"),
 "C11": ("exploration", "differential runtime monitoring through the real gRPC server and client vs the same reference model, exhaustive error-mapping round trips over a generated wrapping family, and inline-vs-gRPC comparison of server-side rejections (empty key, injected no-space) for contents from 0 bytes to 4 MiB; keys of 5000 and 70000 bytes; Begin without a level; thorough tier: handles held open for 50 s on both clients; a 25-call script per key through both clients over a grid of UTF-8 keys (rune widths 1-4, lengths 16-65536); gRPC handles whose Open context is done; failing metadata writes inside histories; ends retried after a dead-context attempt; readers with different views of one key on one handle at once; several handles to one server opened and closed independently; partly consumed sources; snapshot taken at Begin; key listings of 300-1100 keys through both clients",
         "The gRPC client is compared with the model the inline client is compared with (same histories), and every wire sentinel survives Error->ClientError under all generated wrappings.", "trusted: reference model; loopback TCP", "3/C11"),
 "C13": ("exploration", "differential runtime monitoring: late operations through ended / never-begun transaction handles (inline and gRPC; never-begun ones also under names that are not UUID-shaped), probes by all actors and after reopen, vs reference model; plus a concurrent role (other goroutines read through a transaction while it ends; reads issued afterwards must fail); finished handles probed while 4-16 goroutines begin and end transactions; ends attempted with a cancelled context; large late uploads; identifiers of ended transactions used again after a restart and new Begins; connection cut (TCP forwarder) exactly while Rollback / Commit is sent",
         "Every late call class and every probe after it equals the model; late writes being accepted is a recorded known finding, every other deviation is reported.", "trusted: reference model", "3/C13"),
 "C18": ("exploration", "runtime comparison of the real per-key version list with a linear-scan specification: exhaustive over all subsets of 12 versions x all points x all horizons, plus seeded long interleavings; plus a database-level role: content files left on disk after a collector pass with a transaction open since the horizon must be exactly the versions without a successor at or before the horizon; snapshot look-ups around deletions (every Set/Delete pattern of length <= 3 before and after the point); keys with 1030-2400 versions around the horizon; older transactions ending and younger ones beginning before the pass; six collector passes at once",
         "Exhaustive for lists drawn from 12 sequence numbers (every subset, every snapshot point, every horizon), seeded for long lists.", "trusted: linear-scan specification", "3/C18"),
 "C19": ("exploration", "runtime comparison of the real record repository with an independent codec, golden vectors and a golden Badger directory; arbitrary-bytes decoding with panic capture (also short views of larger buffers); GetAll over up to 5000 records; 4-12 repositories encoding/decoding at once; a short record among valid ones at every position; hash-colliding keys; the repositories over the real Badger manager with rewritten and deleted records, inside and outside metadata-store transactions, on top of up to 3100 records",
         "Encoded bytes equal the documented layout, decoding inverts it, golden data written earlier still decodes, arbitrary bytes never panic and short records are rejected.", "trusted: golden files under /verif/golden", "3/C19"),
 "C20": ("exploration", "runtime enumeration of configuration-source combinations (file x environment per setting, single + pairwise + seeded) against a model of the documented precedence; other spellings of numeric/duration environment values; Valid() table; defaults-after-open; zero values in the file; effective directory limit of an opened database; values from the edges of each type; configuration files of 3-300 KiB; values with characters that shells, templates and URL parsers interpret; child processes started with GOMAXPROCS=3/5",
         "Every combination run agrees with the precedence model; malformed values in effect are errors; Valid() table complete.", "trusted: model of documented defaults", "3/C20"),
}

PENDING = {}
for pid in ["C04","C06","C07","C08","C10","C12","C14","C15","C16","C17"]:
    PENDING[pid] = "check not built yet at this commit (planned: see DESIGN.md section 3); will be claimed once its monitor exists"

# allow an override file listing extra checks as they are added
extra = os.path.join(V, "tools", "manifest_extra.json")
if os.path.exists(extra):
    for k, v in json.load(open(extra)).items():
        CHECKS[k] = tuple(v)
        PENDING.pop(k, None)

checks = []
for pid in sorted(CHECKS):
    level, tech, text, note, ref = CHECKS[pid]
    checks.append({
        "property_id": pid,
        "quick_cmd": f"./run {pid} quick",
        "thorough_cmd": f"./run {pid} thorough",
        "evidence_file": f"/verif/evidence/{pid}.json",
        "replay_cmd_template": "cat {path}",
        "engine": "vcheck",
        "level_claimed": {"category": level, "text": text, "design_ref": "DESIGN.md §" + ref},
        "level_note": note,
        "technique": tech,
    })

m = {
 "version": 1,
 "setup_cmd": "./setup.sh",
 "hooks": {
   "guard": "verif (Go build tag)",
   "enable": "go build -tags verif (done by ./run, which rebuilds the harness against /repo's working tree on every invocation)",
   "baseline_off_cmd": "cd /repo && go test -mod=mod -json -vet=off -count=1 -timeout 25m ./...",
   "source_commits": [l.split()[0] for l in hook_commits],
   "add_only": True,
 },
 "engines": [
   {"name": "vcheck", "path": "/verif/harness", "serves_properties": sorted(CHECKS), "kind_free_text": "Go harness: history generators, reference model, differential runner, recorded-history checkers (porcupine), hook-driven steering, crash/fault injectors, race-detector driver; one child process per batch of cases"},
 ],
 "checks": checks,
 "not_applicable": [{"property_id": k, "reason": v} for k, v in sorted(PENDING.items())],
 "notes": "Every check is ./run <id> <tier>; it rebuilds the harness from /repo's working tree with -tags verif, prints VIOLATION/KNOWN-FINDING lines, rewrites evidence/<id>.json. Known findings: KNOWN_FINDINGS.txt. Build failure of /repo = exit 2 (no verdict).",
}
json.dump(m, open(os.path.join(V, "MANIFEST.json"), "w"), indent=1)
print("MANIFEST.json written:", len(checks), "checks,", len(PENDING), "pending")
