#!/usr/bin/env python3
"""Re-runs checks against a filed seeded change (via selftest.sh) and updates its meta.json.
   tools/recheck_seed.py <seed-id> <Cxx> [<Cxx>...]"""
import json,subprocess,sys,re
sid=sys.argv[1]; props=sys.argv[2:]
d=f"/verif/seeded/{sid}"
m=json.load(open(d+"/meta.json"))
out=subprocess.run(["/verif/selftest.sh",d+"/patch.diff",*props],capture_output=True,text=True).stdout
for line in out.splitlines():
    mm=re.match(r"(DETECTED|MISSED) (C\d\d) \S+\s*(.*)",line)
    if not mm: continue
    st,p,rest=mm.groups()
    sig=rest.split("sig:")[-1].strip() if st=="DETECTED" else "exit 0"
    m["checks"][p]={"outcome":st.lower(),"signature_or_exit":sig[:160]}
    print(sid,p,st,sig[:100])
json.dump(m,open(d+"/meta.json","w"),indent=1)
