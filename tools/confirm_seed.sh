#!/bin/bash
# Confirms a seeded change delivered by a sub-agent and files it under /verif/seeded/<id>/.
#   tools/confirm_seed.sh <seed-dir> <id> <demo-dest-dir-in-repo> <go-test-run-regex> "<tags>" "<needs>" <Cxx> [<Cxx>...]
# Steps (all in a scratch worktree of /repo outside /repo and /verif, removed afterwards):
#   demo without the patch must pass; with the patch must fail; the unedited suite must pass with the patch;
#   then the listed checks are run against the patched tree (quick tier) and the outcome recorded.
set -u
export GOFLAGS=-mod=mod GOPROXY=off GOSUMDB=off GOTOOLCHAIN=local
seed="$1"; id="$2"; dest="$3"; run="$4"; tags="$5"; needs="$6"; shift 6
wt="/tmp/confirm-$id-$$"
git -C /repo worktree add -q --detach "$wt" HEAD || exit 3
cleanup() { git -C /repo worktree remove --force "$wt" >/dev/null 2>&1; rm -rf "$wt" "/verif/bin/alt-$(echo "$wt" | cksum | cut -d' ' -f1)"; }
trap cleanup EXIT
mkdir -p "$wt/tmp"
demo=$(ls "$seed"/demo_test.go 2>/dev/null || true)
tagarg=""; [ -n "$tags" ] && tagarg="-tags $tags"; [ "$tags" = "race" ] && tagarg="-race"
if [ -z "$demo" ] && [ -f "$seed/demo/main.go" ]; then demo="$seed/demo/main.go"; prog=1; else prog=0; fi
mkdir -p "$wt/$dest"; rundemo() { if [ $prog -eq 1 ]; then ( cd "$wt" && mkdir -p zz_seed_demo && cp "$demo" zz_seed_demo/main.go && go run -mod=mod $tagarg ./zz_seed_demo > "$wt/tmp/demo.log" 2>&1; rc=$?; rm -rf zz_seed_demo; exit $rc ); return $?; fi; ( cd "$wt" && cp "$demo" "$dest/zz_seed_demo_test.go" && go test -mod=mod -vet=off -count=1 $tagarg -run "$run" "./$dest" > "$wt/tmp/demo.log" 2>&1; rc=$?; rm -f "$dest/zz_seed_demo_test.go"; exit $rc ); }
rundemo; without=$?
git -C "$wt" apply --whitespace=nowarn "$seed/patch.diff" || { echo "PATCH-DOES-NOT-APPLY"; exit 3; }
rundemo; with=$?
demotail=$(tail -5 "$wt/tmp/demo.log" | cut -c1-300)
( cd "$wt" && go test -mod=mod -vet=off -count=1 ./... > "$wt/tmp/suite.log" 2>&1 )
failing_pkgs() { grep -E "^FAIL\s" "$1" | grep -v -E "internal/repository/content|internal/utils/grpc/streamwriter|pkg/test|build failed" | awk '{print $2}' | sort -u; }
pk=$(failing_pkgs "$wt/tmp/suite.log")
for attempt in 1 2; do   # some baseline tests are flaky under load: only persistent failures count
  [ -z "$pk" ] && break
  ( cd "$wt" && go test -mod=mod -vet=off -count=1 $pk > "$wt/tmp/suite-retry.log" 2>&1 )
  pk=$(failing_pkgs "$wt/tmp/suite-retry.log")
done
suite_fail="$pk"
echo "demo without patch: exit $without (want 0); with patch: exit $with (want !=0); suite extra failures: [${suite_fail}]"
results=""
for prop in "$@"; do
  out="$wt/tmp/out-$prop"; mkdir -p "$out"
  VERIF_REPO="$wt" VERIF_OUT_DIR="$out" /verif/run "$prop" quick > "$out/log" 2>&1; code=$?
  if [ $code -eq 1 ] && grep -q "^VIOLATION property=$prop" "$out/log"; then
    sig=$(grep -m1 '  sig:' "$out/log" | sed 's/^  sig: //' | cut -c1-160)
    echo "  $prop DETECTED: $sig"; results="$results$prop\x1fdetected\x1f$sig\x1e"
  else
    echo "  $prop MISSED (exit $code): $(tail -1 "$out/log" | cut -c1-120)"; results="$results$prop\x1fmissed\x1fexit $code\x1e"
  fi
done
if [ $without -eq 0 ] && [ $with -ne 0 ] && [ -z "$suite_fail" ]; then
  d="/verif/seeded/$id"; mkdir -p "$d"
  cp "$seed/patch.diff" "$d/patch.diff"; if [ $prog -eq 1 ]; then mkdir -p "$d/demo"; cp "$demo" "$d/demo/main.go"; else cp "$demo" "$d/demo_test.go"; fi; [ -f "$seed/NOTES.md" ] && cp "$seed/NOTES.md" "$d/NOTES.md"
  python3 - "$d/meta.json" "$id" "$dest" "$run" "$tags" "$needs" "$results" "$demotail" <<'PY'
import json,sys
out,id_,dest,run,tags,needs,results,demotail=sys.argv[1:9]
res={}
results=results.replace('\\x1f','\x1f').replace('\\x1e','\x1e')
for r in results.strip('\x1e').split('\x1e'):
    if not r: continue
    p,st,sig=r.split('\x1f',2); res[p]={"outcome":st,"signature_or_exit":sig}
json.dump({"id":id_,"breaks_property":id_.split('-')[0],"needs_to_manifest":needs,
 "demonstration":{"file":"demo_test.go","copy_to":dest,"run":f"go test -mod=mod -vet=off -count=1 {('-race' if tags=='race' else '-tags '+tags) if tags else ''} -run '{run}' ./{dest}","without_patch":"passes","with_patch":"fails","tail_of_failing_output":demotail},
 "suite_with_patch":"all baseline packages ok (only the pre-existing build failures of tag-dependent packages)",
 "what_was_run":"tools/confirm_seed.sh: scratch worktree of /repo under /tmp; demo without and with the patch; go test ./...; then ./run <check> quick with VERIF_REPO pointing at the patched worktree",
 "checks":res}, open(out,'w'), indent=1)
PY
  echo "KEPT as $d"
else
  echo "NOT KEPT (requirements not met)"; tail -15 "$wt/tmp/demo.log"
fi
