#!/bin/bash
# tools/seed_matrix.sh : regression run of the monitors against every seeded change. For each seed the quick
# checks that its meta.json records as having detected it are run again against the patched tree
# (selftest.sh); writes seeded/MATRIX.tsv (seed, check, outcome, signature) and lists every check that
# no longer detects its seed.
cd "$(dirname "$0")/.."
out=seeded/MATRIX.tsv; : > "$out.tmp"
for d in seeded/*/; do
  id=$(basename "$d")
  checks=$(python3 -c "
import json,sys
m=json.load(open('$d/meta.json'))
print(' '.join(k for k,v in m['checks'].items() if v['outcome']=='detected'))")
  for p in $checks; do
    r=$(./selftest.sh "$d/patch.diff" $p 2>&1 | tail -1)
    st=$(echo "$r" | awk '{print $1}')
    sig=$(echo "$r" | sed 's/^[A-Z-]* [A-Z0-9]* [^:]*: *//' | cut -c1-140)
    printf "%s\t%s\t%s\t%s\n" "$id" "$p" "$st" "$sig" | tee -a "$out.tmp"
  done
done
mv "$out.tmp" "$out"
echo "no longer detected:"; grep -v -P "\tDETECTED\t" "$out" || echo "  (none)"
