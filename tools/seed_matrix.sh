#!/bin/bash
# tools/seed_matrix.sh [<Cxx> ...] : runs the quick check of every seeded change's own property (and of the
# properties given as arguments) against the patched tree; writes seeded/MATRIX.tsv (seed, check, outcome, signature).
cd "$(dirname "$0")/.."
out=seeded/MATRIX.tsv; : > "$out.tmp"
for d in seeded/*/; do
  id=$(basename "$d"); own=${id%%-*}
  for p in $own "$@"; do
    r=$(./selftest.sh "$d/patch.diff" $p 2>&1 | tail -1)
    st=$(echo "$r" | awk '{print $1}')
    sig=$(echo "$r" | sed 's/^[A-Z-]* [A-Z0-9]* [^:]*: *//' | cut -c1-140)
    printf "%s\t%s\t%s\t%s\n" "$id" "$p" "$st" "$sig" | tee -a "$out.tmp"
  done
done
mv "$out.tmp" "$out"
