#!/bin/bash
# tools/sweep.sh <tier> <seed> [<seed>...] : runs every check at the tier for each seed, evidence redirected to scratch
# (so that the committed evidence is not touched); prints one line per run, plus details of anything unclean.
tier="$1"; shift
worst=0
cd "$(dirname "$0")/.."
for seed in "$@"; do
  for p in C01 C02 C03 C04 C05 C06 C07 C08 C09 C10 C11 C12 C13 C14 C15 C16 C17 C18 C19 C20; do
    out="/var/tmp/verif-sweep/$tier-$seed-$p"; mkdir -p "$out"
    start=$(date +%s)
    VERIF_SEED=$seed VERIF_OUT_DIR="$out" ./run $p $tier > "$out/log" 2>&1; code=$?
    end=$(date +%s)
    echo "seed=$seed $p exit=$code $((end-start))s $(tail -1 "$out/log" | cut -c1-150)"
    if [ $code -ne 0 ]; then worst=1; grep -E "VIOLATION|  sig:|CHECK-ERROR|BUILD-ERROR" "$out/log" | sort | uniq -c | head -10; fi
    grep -h "inconclusive=[1-9]" "$out/log" >/dev/null && python3 -c "
import json;d=json.load(open('$out/evidence/$p.json'));print('   inconclusive:',d['coverage'].get('inconclusive_notes'))" 2>/dev/null
  done
done
echo "sweep finished: worst exit $worst"
exit $worst
