#!/usr/bin/env python3
import json, jsonschema, sys, glob
jsonschema.validate(json.load(open('/verif/MANIFEST.json')), json.load(open('/root/.vp/MANIFEST.schema.json')))
print('manifest valid')
sch = json.load(open('/root/.vp/EVIDENCE.schema.json'))
for p in sorted(glob.glob('/verif/evidence/*.json')):
    jsonschema.validate(json.load(open(p)), sch)
print('evidence valid:', len(glob.glob('/verif/evidence/*.json')))
