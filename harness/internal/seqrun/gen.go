package seqrun

import (
	"fmt"
	"math/rand"
	"strings"

	"verifharness/internal/refmodel"
)

// Profile steers the history generator.
type Profile struct {
	Steps   int
	Keys    []string
	Lens    []int
	Levels  []int
	MaxOpen int
	// W are relative weights of step kinds: begin set setreader create delete
	// get getreader getkeys commit rollback collect drain reopen emptykey
	// lateread latewrite latetx phantom
	W map[string]int
	// TxBias is the percentage of data operations issued through an open
	// transaction when one exists.
	TxBias int
	// Prefix for content tags (keeps values unique across histories of a case).
	TagPrefix string
	// LateWritesLast moves late writes to the end of the history.
	NoLateWriteBefore int
	// FirstTx is the actor number of the first transaction begun (histories that continue an
	// earlier one must not reuse its transaction numbers).
	FirstTx int
}

var (
	// LenGrid are the content lengths around the buffer boundaries of the code.
	LenGrid = []int{0, 1, 2, 17, 511, 512, 2047, 2048, 2049, 4095, 4096, 4097, 32767, 32768, 32769, 65535, 65536, 65537, 100000}
	// HostileKeys are keys with awkward byte contents.
	HostileKeys = []string{"a", "ab", "abc", "k/with/slash", "../dotdot", "nul\x00byte", "юникод-ключ", "日本語", " ", "\n", "file/", "fileContent/x", string(make([]byte, 1000)), "\xff\xfe\xfd", strings.Repeat("K", 5000), strings.Repeat("long-key/", 7800), "a" + strings.Repeat("é", 60), strings.Repeat("é", 47) + "日本", "ab" + strings.Repeat("ключ", 30), "reports/2024%2F10", "100%d%s%v%w%!"}
)

type genState struct {
	rng    *rand.Rand
	p      Profile
	m      *refmodel.Model
	nextTx int
	ended  []int
	nval   int
	steps  []Step
}

func (g *genState) pick(ws map[string]int, allowed func(string) bool) string {
	total := 0
	names := make([]string, 0, len(ws))
	for _, n := range kindOrder {
		if w := ws[n]; w > 0 && allowed(n) {
			total += w
			names = append(names, n)
		}
	}
	if total == 0 {
		return ""
	}
	x := g.rng.Intn(total)
	for _, n := range names {
		x -= ws[n]
		if x < 0 {
			return n
		}
	}
	return names[len(names)-1]
}

var kindOrder = []string{"begin", "set", "setreader", "create", "delete", "get", "getreader", "getkeys", "commit", "rollback", "collect", "drain", "reopen", "otherdb", "faultwrite", "emptykey", "lateread", "latewrite", "latetx", "phantom", "getreader_gc"}

func (g *genState) key() string { return g.p.Keys[g.rng.Intn(len(g.p.Keys))] }

func (g *genState) actor() int {
	open := g.m.OpenTxs()
	if len(open) > 0 && g.rng.Intn(100) < g.p.TxBias {
		return open[g.rng.Intn(len(open))]
	}
	return refmodel.Autocommit
}

func (g *genState) pieces() []int {
	n := g.rng.Intn(4)
	out := make([]int, n)
	choices := []int{0, 1, 2, 3, 100, 511, 512, 513, 2047, 2048, 2049, 32767, 32768, 32769}
	for i := range out {
		out[i] = choices[g.rng.Intn(len(choices))]
	}
	return out
}

func (g *genState) value() (string, int) {
	g.nval++
	return fmt.Sprintf("%sv%d", g.p.TagPrefix, g.nval), g.p.Lens[g.rng.Intn(len(g.p.Lens))]
}

func (g *genState) emit(s Step) {
	// keep the generator's model in step
	switch s.Op {
	case "begin":
		g.m.Begin(s.Actor, refmodel.Level(s.Level))
	case "set", "setreader", "create":
		g.m.Write(s.Actor, s.Key, string(Content(s.Tag, s.Len)), false)
	case "delete":
		g.m.Write(s.Actor, s.Key, "", true)
	case "commit":
		g.m.Commit(s.Actor)
		g.ended = append(g.ended, s.Actor)
	case "rollback":
		if g.m.IsOpen(s.Actor) {
			g.ended = append(g.ended, s.Actor)
		}
		g.m.Rollback(s.Actor)
	case "reopen":
		g.ended = append(g.ended, g.m.OpenTxs()...)
		g.m.Reopen()
	}
	g.steps = append(g.steps, s)
}

// Generate produces a history for the profile.
func Generate(rng *rand.Rand, p Profile) []Step {
	if len(p.Lens) == 0 {
		p.Lens = []int{24}
	}
	if len(p.Levels) == 0 {
		p.Levels = []int{0, 1, 2, 3}
	}
	g := &genState{rng: rng, p: p, m: refmodel.New(), nextTx: p.FirstTx}
	for len(g.steps) < p.Steps {
		open := g.m.OpenTxs()
		kind := g.pick(p.W, func(n string) bool {
			switch n {
			case "begin":
				return len(open) < p.MaxOpen
			case "commit", "rollback":
				return len(open) > 0
			case "lateread", "latetx":
				return len(g.ended) > 0
			case "latewrite":
				return len(g.ended) > 0 && len(g.steps) >= p.NoLateWriteBefore
			}
			return true
		})
		switch kind {
		case "":
			return g.steps
		case "begin":
			st := Step{Op: "begin", Actor: g.nextTx, Level: p.Levels[rng.Intn(len(p.Levels))]}
			// the default level is the one a caller gets who passes none
			st.NoLevel = st.Level == 1 && g.nextTx%2 == 1
			g.emit(st)
			g.nextTx++
		case "set", "setreader", "create":
			tag, n := g.value()
			s := Step{Op: kind, Actor: g.actor(), Key: g.key(), Tag: tag, Len: n}
			if kind != "set" {
				s.Pieces = g.pieces()
			}
			g.emit(s)
		case "delete":
			g.emit(Step{Op: "delete", Actor: g.actor(), Key: g.key()})
		case "faultwrite":
			// a write whose metadata record cannot be written: it fails and leaves no trace
			// (the model is not touched); Len selects the call and the record that fails
			tag, _ := g.value()
			g.emit(Step{Op: "faultwrite", Actor: g.actor(), Key: g.key(), Tag: tag, Len: rng.Intn(5)})
		case "get":
			g.emit(Step{Op: "get", Actor: g.actor(), Key: g.key()})
		case "getreader":
			g.emit(Step{Op: "getreader", Actor: g.actor(), Key: g.key(), Pieces: g.pieces()})
		case "getreader_gc":
			g.emit(Step{Op: "getreader_gc", Actor: g.actor(), Key: g.key(), Pieces: g.pieces()})
		case "getkeys":
			g.emit(Step{Op: "getkeys", Actor: g.actor()})
		case "commit", "rollback":
			g.emit(Step{Op: kind, Actor: open[rng.Intn(len(open))]})
		case "collect", "drain", "reopen", "otherdb":
			g.emit(Step{Op: kind, Actor: refmodel.Autocommit})
		case "emptykey":
			tag, n := g.value()
			// writes with an empty key must be rejected; Delete of the empty key is
			// accepted by the store and must stay harmless (also across reopens)
			op := []string{"set", "setreader", "create", "delete"}[rng.Intn(4)]
			if op == "delete" {
				g.emit(Step{Op: op, Actor: g.actor(), Key: ""})
			} else {
				g.emit(Step{Op: op, Actor: g.actor(), Key: "", Tag: tag, Len: n})
			}
		case "lateread":
			a := g.ended[rng.Intn(len(g.ended))]
			op := []string{"get", "getreader", "getkeys"}[rng.Intn(3)]
			g.emit(Step{Op: op, Actor: a, Key: g.key(), Late: true})
		case "latetx":
			a := g.ended[rng.Intn(len(g.ended))]
			op := []string{"commit", "rollback"}[rng.Intn(2)]
			g.emit(Step{Op: op, Actor: a, Late: true})
		case "latewrite":
			a := g.ended[rng.Intn(len(g.ended))]
			op := []string{"set", "setreader", "create", "delete"}[rng.Intn(4)]
			tag, n := g.value()
			s := Step{Op: op, Actor: a, Key: g.key(), Late: true}
			if op != "delete" {
				s.Tag, s.Len = tag, n
			}
			g.emit(s)
		case "phantom":
			g.emit(Step{Op: "phantom", Actor: g.nextTx})
			g.ended = append(g.ended, g.nextTx)
			g.nextTx++
		}
	}
	return g.steps
}
