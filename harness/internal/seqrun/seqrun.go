// Package seqrun generates sequential histories and runs them step by step
// against the implementation and the reference model, comparing every result.
package seqrun

import (
	"bytes"
	"encoding/hex"
	"encoding/json"
	"context"
	"errors"
	"fmt"
	"hash/fnv"
	"io"
	"math/rand"
	"os"
	"path/filepath"
	"sort"
	"strings"
	"unicode/utf8"

	"github.com/glebziz/fs_db"
	"github.com/glebziz/fs_db/pkg/verif"

	"verifharness/internal/dbx"
	"verifharness/internal/refmodel"
)

// Step is one operation of a history.
type Step struct {
	Op     string `json:"op"`              // begin set setreader create delete get getreader getkeys commit rollback collect drain reopen
	Actor  int    `json:"actor"`           // -1 autocommit, else transaction number
	Level  int    `json:"level,omitempty"` // for begin
	Key    string `json:"key,omitempty"`
	Tag    string `json:"tag,omitempty"` // content tag (content is generated from tag and len)
	Len    int    `json:"len,omitempty"`
	Pieces []int  `json:"pieces,omitempty"` // write sizes for create / piece sizes for readers
	Late   bool   `json:"late,omitempty"`   // issued through an ended / unknown transaction
	// NoLevel: Begin is called without a level argument (the documented default, ReadCommitted,
	// which is also what Level says)
	NoLevel bool `json:"no_level,omitempty"`
}

// keys that are not valid UTF-8 would be rewritten by encoding/json: they travel as hex
type stepJSON Step

func (s Step) MarshalJSON() ([]byte, error) {
	if utf8.ValidString(s.Key) {
		return json.Marshal(stepJSON(s))
	}
	w := struct {
		stepJSON
		KeyHex string `json:"key_hex"`
	}{stepJSON(s), hex.EncodeToString([]byte(s.Key))}
	w.Key = ""
	return json.Marshal(w)
}

func (s *Step) UnmarshalJSON(b []byte) error {
	var w struct {
		stepJSON
		KeyHex string `json:"key_hex"`
	}
	if err := json.Unmarshal(b, &w); err != nil {
		return err
	}
	*s = Step(w.stepJSON)
	if w.KeyHex != "" {
		k, err := hex.DecodeString(w.KeyHex)
		if err != nil {
			return err
		}
		s.Key = string(k)
	}
	return nil
}

func (s Step) String() string {
	b := fmt.Sprintf("%s actor=%d", s.Op, s.Actor)
	if s.Op == "begin" {
		b += " level=" + refmodel.Level(s.Level).String()
	}
	if s.Key != "" || s.Op == "set" || s.Op == "get" {
		b += fmt.Sprintf(" key=%q", s.Key)
	}
	if s.Tag != "" {
		b += fmt.Sprintf(" val=%s/%d", s.Tag, s.Len)
	}
	if s.Late {
		b += " (late)"
	}
	return b
}

// Content returns the deterministic content for (tag, n): the tag, a colon and
// pseudo-random bytes derived from the tag; shorter contents are a prefix.
func Content(tag string, n int) []byte {
	h := fnv.New64a()
	h.Write([]byte(tag))
	x := h.Sum64() | 1
	out := make([]byte, 0, n)
	out = append(out, tag...)
	out = append(out, ':')
	if len(out) > n {
		out = out[:0]
		// too short to carry the tag: bytes only
	}
	for len(out) < n {
		x ^= x << 13
		x ^= x >> 7
		x ^= x << 17
		out = append(out, byte(x>>24))
	}
	return out[:n]
}

// Describe renders a content for messages: tag/len when recognisable.
func Describe(b []byte) string {
	if i := bytes.IndexByte(b, ':'); i > 0 && i < 40 {
		return fmt.Sprintf("%s/%d", b[:i], len(b))
	}
	if len(b) > 24 {
		return fmt.Sprintf("%x…/%d", b[:24], len(b))
	}
	return fmt.Sprintf("%x/%d", b, len(b))
}

// Class maps an error to its class.
func Class(err error) refmodel.ErrClass {
	switch {
	case err == nil:
		return refmodel.OK
	case errors.Is(err, fs_db.ErrNotFound):
		return refmodel.NotFound
	case errors.Is(err, fs_db.ErrEmptyKey):
		return refmodel.EmptyKey
	case errors.Is(err, fs_db.ErrTxNotFound):
		return refmodel.TxNotFound
	case errors.Is(err, fs_db.ErrTxSerialization):
		return refmodel.TxSerial
	case errors.Is(err, fs_db.ErrNoFreeSpace):
		return refmodel.NoFreeSpace
	default:
		return refmodel.OtherErr
	}
}

// Mismatch is a refutation found while running a history.
type Mismatch struct {
	StepIdx  int    `json:"step_idx"`
	Step     Step   `json:"step"`
	Probe    string `json:"probe,omitempty"` // set when the mismatch was found by a probe read after the step
	Sig      string `json:"sig"`
	Expected string `json:"expected"`
	Actual   string `json:"actual"`
}

func (m *Mismatch) Error() string {
	p := ""
	if m.Probe != "" {
		p = " probe[" + m.Probe + "]"
	}
	return fmt.Sprintf("step %d (%s)%s: expected %s, got %s", m.StepIdx, m.Step, p, m.Expected, m.Actual)
}

// Options of a runner.
type Options struct {
	Probe       bool // probe all keys + GetKeys for all open actors after every step
	ProbeEnded  bool // also probe through ended transactions (must fail with ErrTxNotFound)
	ProbeReader bool // probes alternate between Get and GetReader
	AfterStep   func(r *Runner, idx int, s Step) *Mismatch
	// ProbeMode varies who probes in which order (reads may have side effects on the
	// implementation that a fixed probing order would hide): 0 oldest first, 1 youngest
	// first, 2 shuffled each time, 3 shuffled random subset, some rounds skipped entirely.
	ProbeMode int
	ProbeSeed int64
}

// Stats collected while running.
type Stats struct {
	Steps, Probes  int64
	OpClass        map[string]int64 // "op/actorKind/resultClass"
	MaxOpen        int
	LevelDiscrim   int64 // probes whose answer differed between two actors at the same instant
	ConflictCommit int64
	CleanCommit    int64
	Collected      int64
}

// Runner runs steps against an environment and the model.
type Runner struct {
	Env       *dbx.Env
	M         *refmodel.Model
	Txs       map[int]fs_db.Tx
	Opt       Options
	Stats     Stats
	probeFlip bool
	phRng     *rand.Rand
	prRng     *rand.Rand
	malformed map[int]bool
	prevRead  []byte
	prevCopy  []byte
}

// NewRunner creates a runner over an opened environment.
func NewRunner(env *dbx.Env, opt Options) *Runner {
	return &Runner{Env: env, M: refmodel.New(), Txs: map[int]fs_db.Tx{}, Opt: opt, Stats: Stats{OpClass: map[string]int64{}}, phRng: rand.New(rand.NewSource(42)), malformed: map[int]bool{}}
}

func (r *Runner) store(actor int) fs_db.Store {
	if actor == refmodel.Autocommit {
		return r.Env.DB
	}
	if t, ok := r.Txs[actor]; ok {
		return t
	}
	return nil
}

func (r *Runner) actorKind(actor int) string {
	if actor == refmodel.Autocommit {
		return "auto"
	}
	if r.M.IsOpen(actor) {
		return "open-" + r.M.LevelOf(actor).String()
	}
	if r.malformed[actor] {
		// never begun, and named by something that is not even an id
		return "unknown-malformed-id"
	}
	return "ended-" + r.M.LevelOf(actor).String()
}

var ctx = context.Background()

// pieceReader returns data in irregular pieces, optionally delivering the
// final piece together with io.EOF.
type pieceReader struct {
	data        []byte
	pieces      []int
	i           int
	eofWithData bool
}

func (p *pieceReader) Read(b []byte) (int, error) {
	if len(p.data) == 0 {
		return 0, io.EOF
	}
	n := len(b)
	if len(p.pieces) > 0 {
		if sz := p.pieces[p.i%len(p.pieces)]; sz > 0 && sz < n {
			n = sz
		}
		p.i++
	}
	if n > len(p.data) {
		n = len(p.data)
	}
	copy(b, p.data[:n])
	p.data = p.data[n:]
	if len(p.data) == 0 && p.eofWithData {
		return n, io.EOF
	}
	return n, nil
}

func readPieces(rc io.ReadCloser, pieces []int) ([]byte, error) {
	defer rc.Close()
	if len(pieces) == 0 {
		return io.ReadAll(rc)
	}
	var out []byte
	for i := 0; ; i++ {
		if i == len(pieces) && len(pieces)%2 == 0 {
			// the caller has looked at the beginning piece by piece and now copies the rest
			// (io.Copy prefers the reader's own WriteTo when it has one)
			var rest bytes.Buffer
			_, err := io.Copy(&rest, rc)
			return append(out, rest.Bytes()...), err
		}
		sz := pieces[i%len(pieces)]
		if sz <= 0 {
			sz = 1
		}
		buf := make([]byte, sz)
		n, err := rc.Read(buf)
		out = append(out, buf[:n]...)
		if err == io.EOF {
			return out, nil
		}
		if err != nil {
			return out, err
		}
	}
}

func (r *Runner) mism(idx int, s Step, probe, sig, exp, act string) *Mismatch {
	if !utf8.ValidString(s.Key) || (probe != "" && strings.Contains(probe, "\\x")) {
		sig += " key=non-utf8"
	}
	return &Mismatch{StepIdx: idx, Step: s, Probe: probe, Sig: sig, Expected: exp, Actual: act}
}

func expectString(e refmodel.Expect) string {
	if len(e.Vals) == 0 {
		return string(e.Err)
	}
	var parts []string
	for _, o := range e.Vals {
		if o.Missing {
			parts = append(parts, string(refmodel.NotFound))
		} else {
			parts = append(parts, Describe([]byte(o.Val)))
		}
	}
	return strings.Join(parts, " or ")
}

// checkRead compares a read result with the model's expectation.
func (r *Runner) checkRead(idx int, s Step, probe, op string, actor int, key string, val []byte, err error) *Mismatch {
	// a slice handed out by an earlier Get belongs to the caller: a later call must not change it
	if r.prevRead != nil && !bytes.Equal(r.prevRead, r.prevCopy) {
		m := r.mism(idx, s, probe, "returned-slice-overwritten-by-later-call op="+op, Describe(r.prevCopy), Describe(r.prevRead))
		r.prevRead, r.prevCopy = nil, nil
		return m
	}
	if err == nil && op == "get" && len(val) > 0 {
		r.prevRead, r.prevCopy = val, append([]byte(nil), val...)
	}
	e := r.M.Get(actor, key)
	cls := Class(err)
	kind := r.actorKind(actor)
	r.Stats.OpClass[op+"/"+kind+"/"+string(cls)]++
	if len(e.Vals) == 0 {
		if cls != e.Err {
			what := "wrong-error"
			if cls == refmodel.OK {
				what = "late-read-accepted"
			}
			return r.mism(idx, s, probe, fmt.Sprintf("%s op=%s actor=%s expected=%s got=%s", what, op, kind, e.Err, cls), string(e.Err), actualString(val, err))
		}
		return nil
	}
	for _, o := range e.Vals {
		if o.Missing && cls == refmodel.NotFound {
			return nil
		}
		if !o.Missing && cls == refmodel.OK && string(val) == o.Val {
			return nil
		}
	}
	var sig string
	switch {
	case cls == refmodel.NotFound:
		sig = "read-missing"
	case cls == refmodel.OK:
		sig = "read-wrong-value"
	default:
		sig = "read-wrong-error got=" + string(cls)
	}
	return r.mism(idx, s, probe, fmt.Sprintf("%s op=%s actor=%s", sig, op, kind), expectString(e), actualString(val, err))
}

func actualString(val []byte, err error) string {
	if err != nil {
		return fmt.Sprintf("%s (%v)", Class(err), err)
	}
	return Describe(val)
}

func (r *Runner) checkKeys(idx int, s Step, probe string, actor int, keys []string, err error) *Mismatch {
	e := r.M.GetKeys(actor)
	cls := Class(err)
	kind := r.actorKind(actor)
	r.Stats.OpClass["getkeys/"+kind+"/"+string(cls)]++
	if e.Err != "" {
		if cls != e.Err {
			what := "wrong-error"
			if cls == refmodel.OK {
				what = "late-read-accepted"
			}
			return r.mism(idx, s, probe, fmt.Sprintf("%s op=getkeys actor=%s expected=%s got=%s", what, kind, e.Err, cls), string(e.Err), fmt.Sprintf("%v %v", keys, err))
		}
		return nil
	}
	if cls != refmodel.OK {
		return r.mism(idx, s, probe, fmt.Sprintf("keys-error op=getkeys actor=%s got=%s", kind, cls), fmt.Sprintf("must=%q may=%q", e.Must, e.May), fmt.Sprint(err))
	}
	if !sort.StringsAreSorted(keys) {
		return r.mism(idx, s, probe, "keys-unsorted actor="+kind, "sorted list", fmt.Sprintf("%q", keys))
	}
	seen := map[string]bool{}
	for _, k := range keys {
		if seen[k] {
			return r.mism(idx, s, probe, "keys-duplicate actor="+kind, "no duplicates", fmt.Sprintf("%q", keys))
		}
		seen[k] = true
	}
	allowed := map[string]bool{}
	for _, k := range e.Must {
		allowed[k] = true
		if !seen[k] {
			return r.mism(idx, s, probe, "keys-missing actor="+kind, fmt.Sprintf("must=%q may=%q", e.Must, e.May), fmt.Sprintf("%q", keys))
		}
	}
	for _, k := range e.May {
		allowed[k] = true
	}
	for _, k := range keys {
		if !allowed[k] {
			return r.mism(idx, s, probe, "keys-extra actor="+kind, fmt.Sprintf("must=%q may=%q", e.Must, e.May), fmt.Sprintf("%q", keys))
		}
	}
	return nil
}

func (r *Runner) checkClass(idx int, s Step, got error, want refmodel.ErrClass) *Mismatch {
	cls := Class(got)
	kind := r.actorKind(s.Actor)
	if cls == want {
		return nil
	}
	what := "wrong-error"
	if want == refmodel.TxNotFound && r.malformed[s.Actor] && got != nil && strings.Contains(got.Error(), "marshal file: invalid file format") {
		what = "late-write-fails-at-record-encoding"
	} else if want == refmodel.TxNotFound && cls == refmodel.OK {
		switch s.Op {
		case "set", "setreader", "create", "delete":
			what = "late-write-accepted"
		default:
			what = "late-op-accepted"
		}
	} else if want == refmodel.TxSerial && cls == refmodel.OK {
		what = "conflict-commit-accepted"
	} else if want == refmodel.OK && cls == refmodel.TxSerial {
		what = "spurious-serialization-failure"
	} else if want == refmodel.EmptyKey && cls == refmodel.OK {
		what = "empty-key-accepted"
	}
	return r.mism(idx, s, "", fmt.Sprintf("%s op=%s actor=%s expected=%s got=%s", what, s.Op, kind, want, cls), string(want), fmt.Sprintf("%s (%v)", cls, got))
}

// Do applies one step to the implementation and the model and compares.
func (r *Runner) Do(idx int, s Step) *Mismatch {
	r.Stats.Steps++
	kind := r.actorKind(s.Actor)
	st := r.store(s.Actor)
	var m *Mismatch
	if st == nil && s.Op != "begin" && s.Op != "phantom" {
		// the transaction was never begun in this (shrunk) history: skip
		return nil
	}
	switch s.Op {
	case "begin":
		var tx fs_db.Tx
		var err error
		if s.NoLevel && s.Level == 1 {
			tx, err = r.Env.DB.Begin(ctx)
		} else {
			tx, err = r.Env.DB.Begin(ctx, verif.IsoLevel(s.Level))
		}
		if err != nil {
			return r.mism(idx, s, "", "begin-failed", "ok", fmt.Sprint(err))
		}
		r.Txs[s.Actor] = tx
		r.M.Begin(s.Actor, refmodel.Level(s.Level))
		if n := len(r.M.OpenTxs()); n > r.Stats.MaxOpen {
			r.Stats.MaxOpen = n
		}
	case "phantom":
		id := fmt.Sprintf("%08x-%04x-4%03x-8%03x-%012x", r.phRng.Uint32(), r.phRng.Intn(1<<16), r.phRng.Intn(1<<12), r.phRng.Intn(1<<12), r.phRng.Int63n(1<<48))
		// an unknown transaction is unknown whatever its name looks like
		switch r.phRng.Intn(8) {
		case 0:
			id = fmt.Sprint(r.phRng.Intn(1000))
			r.malformed[s.Actor] = true
		case 1:
			id = "tx-" + id[:8]
			r.malformed[s.Actor] = true
		case 2:
			id = strings.ToUpper(id)
		case 3:
			id = "{" + id + "}"
		case 4:
			id = strings.ReplaceAll(id, "-", "")
		}
		r.Txs[s.Actor] = verif.TxHandle(r.Env.DB, id)
	case "set", "setreader", "create":
		content := Content(s.Tag, s.Len)
		var err error
		switch s.Op {
		case "set":
			err = st.Set(ctx, s.Key, content)
		case "setreader":
			err = st.SetReader(ctx, s.Key, &pieceReader{data: append([]byte(nil), content...), pieces: s.Pieces, eofWithData: len(s.Pieces)%2 == 1})
		default:
			var f fs_db.File
			f, err = st.Create(ctx, s.Key)
			if err == nil {
				rest := content
				// every other file is written the way io.Copy does it: from one chunk buffer that
				// is refilled (here: scribbled over) as soon as Write has returned
				reuse := len(s.Pieces)%2 == 0
				var chunk []byte
				for i := 0; len(rest) > 0 || i < len(s.Pieces); i++ {
					n := len(rest)
					if i < len(s.Pieces) && s.Pieces[i] < n {
						n = s.Pieces[i]
					}
					p := rest[:n]
					if reuse {
						if cap(chunk) < n {
							chunk = make([]byte, n)
						}
						p = chunk[:n]
						copy(p, rest[:n])
					}
					_, werr := f.Write(p)
					if reuse {
						for j := range p {
							p[j] = '#'
						}
					}
					if werr != nil {
						err = werr
						break
					}
					rest = rest[n:]
					if len(rest) == 0 && i >= len(s.Pieces) {
						break
					}
				}
				cerr := f.Close()
				if err == nil {
					err = cerr
				}
			}
		}
		want := r.M.Write(s.Actor, s.Key, string(content), false)
		r.Stats.OpClass[s.Op+"/"+kind+"/"+string(Class(err))]++
		m = r.checkClass(idx, s, err, want)
	case "delete":
		err := st.Delete(ctx, s.Key)
		want := r.M.Write(s.Actor, s.Key, "", true)
		r.Stats.OpClass[s.Op+"/"+kind+"/"+string(Class(err))]++
		m = r.checkClass(idx, s, err, want)
	case "faultwrite":
		api, prefix := [][2]string{{"set", "file/"}, {"set", "fileContent/"}, {"delete", "file/"}, {"setreader", "file/"}, {"setreader", "fileContent/"}}[s.Len%5][0], [][2]string{{"set", "file/"}, {"set", "fileContent/"}, {"delete", "file/"}, {"setreader", "file/"}, {"setreader", "fileContent/"}}[s.Len%5][1]
		fired := false
		verif.SetOpFault(func(op, path string) error {
			if (op == "badger.set" || op == "badger.txn.set") && strings.HasPrefix(path, prefix) {
				fired = true
				return errors.New("injected failure of a metadata record write")
			}
			return nil
		})
		content := Content(s.Tag, 700)
		var err error
		switch api {
		case "set":
			err = st.Set(ctx, s.Key, content)
		case "delete":
			err = st.Delete(ctx, s.Key)
		default:
			err = st.SetReader(ctx, s.Key, bytes.NewReader(content))
		}
		verif.SetOpFault(nil)
		r.Stats.OpClass["faultwrite-"+api+"-"+strings.TrimSuffix(prefix, "/")+"/"+kind+"/"+string(Class(err))]++
		switch {
		case !fired:
			// this implementation writes no such record for the call: an ordinary write then
			m = r.checkClass(idx, s, err, r.M.Write(s.Actor, s.Key, string(content), api == "delete"))
		case err == nil:
			return r.mism(idx, s, "", "failed-metadata-write-acknowledged op="+api+" actor="+kind+" record="+prefix, "an error", "ok")
		case Class(err) != refmodel.OtherErr:
			return r.mism(idx, s, "", fmt.Sprintf("failed-metadata-write-wrong-class op=%s actor=%s got=%s", api, kind, Class(err)), "an error that is none of the sentinels", fmt.Sprint(err))
		}
	case "get":
		b, err := st.Get(ctx, s.Key)
		m = r.checkRead(idx, s, "", "get", s.Actor, s.Key, b, err)
	case "getreader":
		rc, err := st.GetReader(ctx, s.Key)
		var b []byte
		if err == nil {
			b, err = readPieces(rc, s.Pieces)
		}
		m = r.checkRead(idx, s, "", "getreader", s.Actor, s.Key, b, err)
	case "getreader_gc":
		// open a reader, let the collector and the cleaner run, then read to the end
		rc, err := st.GetReader(ctx, s.Key)
		var b []byte
		if err == nil && len(s.Pieces)%2 == 1 {
			// the value is overwritten while the reader is open, so that the pass really removes
			// the content the reader holds: it must still deliver what was there when it was opened
			e := r.M.Get(s.Actor, s.Key)
			ow := Content(fmt.Sprintf("gc-ow-%d-%s", idx, s.Key), 9)
			if werr := r.Env.DB.Set(ctx, s.Key, ow); werr != nil {
				return r.mism(idx, s, "", "overwrite-failed", "ok", fmt.Sprint(werr))
			}
			r.M.Write(refmodel.Autocommit, s.Key, string(ow), false)
			if cerr := r.Env.Collect(); cerr != nil {
				return r.mism(idx, s, "", "collect-failed", "ok", fmt.Sprint(cerr))
			}
			if derr := r.Env.Drain(); derr != nil {
				return r.mism(idx, s, "", "drain-failed", "ok", fmt.Sprint(derr))
			}
			r.Stats.Collected++
			b, err = readPieces(rc, s.Pieces)
			r.Stats.OpClass["getreader_gc_overwritten/"+kind+"/"+string(Class(err))]++
			matched := false
			for _, o := range e.Vals {
				if !o.Missing && err == nil && string(b) == o.Val {
					matched = true
				}
			}
			if !matched {
				return r.mism(idx, s, "", "reader-changed-by-overwrite+collection op=getreader_gc actor="+kind, "the value at the time the reader was opened", actualString(b, err))
			}
			break
		}
		if err == nil {
			if cerr := r.Env.Collect(); cerr != nil {
				return r.mism(idx, s, "", "collect-failed", "ok", fmt.Sprint(cerr))
			}
			if derr := r.Env.Drain(); derr != nil {
				return r.mism(idx, s, "", "drain-failed", "ok", fmt.Sprint(derr))
			}
			r.Stats.Collected++
			b, err = readPieces(rc, s.Pieces)
		}
		m = r.checkRead(idx, s, "", "getreader_gc", s.Actor, s.Key, b, err)
	case "getkeys":
		keys, err := st.GetKeys(ctx)
		m = r.checkKeys(idx, s, "", s.Actor, keys, err)
	case "commit":
		conflict := r.M.WouldConflict(s.Actor)
		nw := r.M.WriteCount(s.Actor)
		err := r.Txs[s.Actor].Commit(ctx)
		want := r.M.Commit(s.Actor)
		r.Stats.OpClass[fmt.Sprintf("commit/%s/%s/writes=%d", kind, Class(err), min(nw, 3))]++
		if conflict {
			r.Stats.ConflictCommit++
		} else if want == refmodel.OK {
			r.Stats.CleanCommit++
		}
		m = r.checkClass(idx, s, err, want)
	case "rollback":
		err := r.Txs[s.Actor].Rollback(ctx)
		want := r.M.Rollback(s.Actor)
		r.Stats.OpClass["rollback/"+kind+"/"+string(Class(err))]++
		m = r.checkClass(idx, s, err, want)
	case "collect":
		if err := r.Env.Collect(); err != nil {
			return r.mism(idx, s, "", "collect-failed", "ok", fmt.Sprint(err))
		}
		r.Stats.Collected++
	case "drain":
		if err := r.Env.Drain(); err != nil {
			return r.mism(idx, s, "", "drain-failed", "ok", fmt.Sprint(err))
		}
	case "otherdb":
		// a second, fresh database is opened, written to and closed in the same process (for
		// the gRPC mode: in the server's process); nothing of it concerns this database
		dir := filepath.Join(r.Env.Opt.Dir, fmt.Sprintf("other-db-%d", idx))
		od, err := dbx.Open(dbx.Options{Mode: dbx.Inline, Dir: dir})
		if err != nil {
			return r.mism(idx, s, "", "other-database-open-failed", "ok", fmt.Sprint(err))
		}
		err = od.DB.Set(ctx, "other", []byte("x"))
		od.Close()
		os.RemoveAll(dir)
		if err != nil {
			return r.mism(idx, s, "", "other-database-set-failed", "ok", fmt.Sprint(err))
		}
		r.Stats.OpClass["otherdb/auto/ok"]++
	case "reopen":
		if err := r.Env.Reopen(); err != nil {
			return r.mism(idx, s, "", "reopen-failed", "ok", fmt.Sprint(err))
		}
		r.M.Reopen()
		// handles of the previous incarnation belong to the closed client: drop them
		r.Txs = map[int]fs_db.Tx{}
	default:
		panic("unknown op " + s.Op)
	}
	if m != nil {
		return m
	}
	if r.Opt.Probe {
		if m = r.ProbeAll(idx, s); m != nil {
			return m
		}
	}
	if r.Opt.AfterStep != nil {
		return r.Opt.AfterStep(r, idx, s)
	}
	return nil
}

// ProbeAll reads every key and the key list as every open actor (and the
// autocommit caller) and compares with the model.
func (r *Runner) ProbeAll(idx int, s Step) *Mismatch {
	actors := append([]int{refmodel.Autocommit}, r.M.OpenTxs()...)
	if r.Opt.ProbeEnded {
		for id := range r.Txs {
			if !r.M.IsOpen(id) {
				actors = append(actors, id)
			}
		}
		sort.Ints(actors)
	}
	if r.Opt.ProbeMode != 0 {
		if r.prRng == nil {
			r.prRng = rand.New(rand.NewSource(r.Opt.ProbeSeed*1000003 + int64(r.Opt.ProbeMode)))
		}
		switch r.Opt.ProbeMode {
		case 1:
			sort.Sort(sort.Reverse(sort.IntSlice(actors)))
		default:
			r.prRng.Shuffle(len(actors), func(i, j int) { actors[i], actors[j] = actors[j], actors[i] })
			if r.Opt.ProbeMode == 3 {
				if r.prRng.Intn(2) == 0 {
					return nil
				}
				actors = actors[:1+r.prRng.Intn(len(actors))]
			}
		}
	}
	keys := r.M.Keys()
	for _, k := range keys {
		var seen []string
		for _, a := range actors {
			st := r.store(a)
			if st == nil {
				continue
			}
			r.Stats.Probes++
			var b []byte
			var err error
			op := "get"
			r.probeFlip = !r.probeFlip
			if r.Opt.ProbeReader && r.probeFlip {
				op = "getreader"
				var rc io.ReadCloser
				rc, err = st.GetReader(ctx, k)
				if err == nil {
					b, err = readPieces(rc, []int{7, 4096, 1})
				}
			} else {
				b, err = st.Get(ctx, k)
			}
			if m := r.checkRead(idx, s, fmt.Sprintf("%s %q as %d", op, k, a), op, a, k, b, err); m != nil {
				return m
			}
			if r.M.IsOpen(a) {
				seen = append(seen, actualString(b, err))
			}
		}
		for i := 1; i < len(seen); i++ {
			if seen[i] != seen[0] {
				r.Stats.LevelDiscrim++
				break
			}
		}
	}
	for _, a := range actors {
		st := r.store(a)
		if st == nil {
			continue
		}
		r.Stats.Probes++
		ks, err := st.GetKeys(ctx)
		if m := r.checkKeys(idx, s, fmt.Sprintf("getkeys as %d", a), a, ks, err); m != nil {
			return m
		}
	}
	return nil
}

// RunSteps runs all steps; returns the first mismatch.
func (r *Runner) RunSteps(steps []Step) *Mismatch {
	for i, s := range steps {
		if m := r.Do(i, s); m != nil {
			return m
		}
	}
	return nil
}

// Rng returns the deterministic generator for (seed, stream, idx).
func Rng(seed int64, stream string, idx int) *rand.Rand {
	h := fnv.New64a()
	fmt.Fprintf(h, "%d/%s/%d", seed, stream, idx)
	return rand.New(rand.NewSource(int64(h.Sum64())))
}
