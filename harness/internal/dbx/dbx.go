// Package dbx opens the system under test (inline handle, or gRPC server +
// client) and provides the quiescence barrier, collector access and tree walk.
package dbx

import (
	"context"
	"crypto/sha256"
	"encoding/hex"
	"errors"
	"fmt"
	"io"
	"io/fs"
	"log/slog"
	"net"
	"os"
	"path/filepath"
	"sort"
	"sync"
	"time"

	"github.com/glebziz/fs_db"
	"github.com/glebziz/fs_db/config"
	"github.com/glebziz/fs_db/pkg/external"
	"github.com/glebziz/fs_db/pkg/inline"
	"github.com/glebziz/fs_db/pkg/verif"
)

func init() {
	// fs_db logs through the default slog logger; keep the harness output clean.
	slog.SetDefault(slog.New(slog.NewTextHandler(io.Discard, nil)))
}

// Mode selects the client kind.
type Mode int

const (
	Inline Mode = iota
	Grpc
)

// Options for an environment.
type Options struct {
	Mode           Mode
	Dir            string // base directory; db and roots are created below it
	Roots          int    // number of storage roots (default 1)
	MaxDirCount    uint64 // default 1_000_000 (unless MaxDirExplicit)
	MaxDirExplicit bool   // use MaxDirCount as given, even 0
	GCPeriod       time.Duration
	NumWorkers     int
	SendDuration   time.Duration
	RootPaths      []string // overrides Roots when set
	Proxy          bool     // gRPC: put a cuttable TCP proxy between client and server
	NoValid        bool     // gRPC: hand the configuration to the server as it is (the server application does not validate it)
	OpenCtxDone    bool     // gRPC: the context given to external.Open is cancelled as soon as Open has returned
	InlineCtxDone  bool     // inline: the context given to inline.Open is done already (the worker pool never runs: no Drain)
}

// Env is one opened database.
type Env struct {
	Opt  Options
	Cfg  config.Config
	DB   fs_db.DB
	C    *verif.Container
	app  *verif.App
	stop context.CancelFunc
	done chan error
	Addr string
	// Direct is a second gRPC client connected straight to the server (Grpc mode with Proxy).
	Direct fs_db.DB
	proxy  *cutProxy
	// Stranded counts the times Drain found deferred jobs without a flusher.
	Stranded int
}

// Cfg builds the configuration for the options.
func (o Options) config() config.Config {
	roots := o.RootPaths
	if len(roots) == 0 {
		n := o.Roots
		if n <= 0 {
			n = 1
		}
		for i := 0; i < n; i++ {
			roots = append(roots, filepath.Join(o.Dir, fmt.Sprintf("root%d", i)))
		}
	}
	mdc := o.MaxDirCount
	if mdc == 0 && !o.MaxDirExplicit {
		mdc = 1_000_000
	}
	gc := o.GCPeriod
	if gc == 0 {
		gc = time.Hour
	}
	nw := o.NumWorkers
	if nw == 0 {
		nw = 2
	}
	sd := o.SendDuration
	if sd == 0 {
		sd = time.Millisecond
	}
	return config.Config{
		Storage: config.Storage{
			DbPath:      filepath.Join(o.Dir, "db"),
			MaxDirCount: mdc,
			RootDirs:    append([]string(nil), roots...),
			GCPeriod:    gc,
		},
		WPool: config.WPool{NumWorkers: nw, SendDuration: sd},
	}
}

// Open opens an environment.
func Open(o Options) (*Env, error) {
	e := &Env{Opt: o, Cfg: o.config()}
	if err := os.MkdirAll(o.Dir, 0o755); err != nil {
		return nil, err
	}
	switch o.Mode {
	case Inline:
		octx := context.Background()
		if o.InlineCtxDone {
			c, cancel := context.WithCancel(octx)
			cancel()
			octx = c
		}
		db, err := inline.Open(octx, e.Cfg)
		if err != nil {
			return nil, err
		}
		e.DB = db
		e.C = verif.InlineContainer(db)
	case Grpc:
		cfg := e.Cfg
		if !o.NoValid {
			if err := cfg.Storage.Valid(); err != nil {
				return nil, err
			}
		}
		e.Cfg = cfg
		ctx, cancel := context.WithCancel(context.Background())
		a, err := verif.NewApp(ctx, cfg)
		if err != nil {
			cancel()
			return nil, err
		}
		lis, err := net.Listen("tcp", "127.0.0.1:0")
		if err != nil {
			cancel()
			return nil, err
		}
		e.app, e.stop, e.C = a, cancel, a.Container()
		e.done = make(chan error, 1)
		e.Addr = lis.Addr().String()
		go func() { e.done <- a.Serve(ctx, lis) }()
		clientAddr := e.Addr
		if o.Proxy {
			px, err := newCutProxy(e.Addr)
			if err != nil {
				cancel()
				return nil, err
			}
			e.proxy = px
			clientAddr = px.addr
			e.Direct, err = external.Open(context.Background(), e.Addr)
			if err != nil {
				cancel()
				return nil, err
			}
		}
		octx, ocancel := context.WithCancel(context.Background())
		db, err := external.Open(octx, clientAddr)
		if err != nil {
			ocancel()
			cancel()
			return nil, err
		}
		if o.OpenCtxDone {
			ocancel()
		}
		_ = ocancel // otherwise the context lives as long as the process
		e.DB = db
	}
	return e, nil
}

// Close closes the environment (client, server, metadata store).
func (e *Env) Close() error {
	switch e.Opt.Mode {
	case Inline:
		return e.DB.Close()
	default:
		_ = e.DB.Close()
		if e.proxy != nil {
			e.proxy.close()
		}
		e.stop()
		select {
		case <-e.done:
		case <-time.After(20 * time.Second):
			return errors.New("grpc server did not stop")
		}
		return e.app.Stop()
	}
}

// Reopen closes and opens again with the same options.
func (e *Env) Reopen() error {
	if err := e.Close(); err != nil {
		return fmt.Errorf("close: %w", err)
	}
	n, err := Open(e.Opt)
	if err != nil {
		return fmt.Errorf("open: %w", err)
	}
	*e = *n
	return nil
}

// RestartServer stops the server application and starts a new one on the same address and the
// same directories (gRPC mode without a proxy); the client stays as it is and reconnects by itself.
func (e *Env) RestartServer() error {
	if e.Opt.Mode != Grpc || e.proxy != nil {
		return errors.New("RestartServer: gRPC mode without proxy only")
	}
	e.stop()
	select {
	case <-e.done:
	case <-time.After(20 * time.Second):
		return errors.New("grpc server did not stop")
	}
	if err := e.app.Stop(); err != nil {
		return fmt.Errorf("stop: %w", err)
	}
	ctx, cancel := context.WithCancel(context.Background())
	a, err := verif.NewApp(ctx, e.Cfg)
	if err != nil {
		cancel()
		return fmt.Errorf("new app: %w", err)
	}
	var lis net.Listener
	for i := 0; i < 200; i++ {
		lis, err = net.Listen("tcp", e.Addr)
		if err == nil {
			break
		}
		time.Sleep(10 * time.Millisecond)
	}
	if err != nil {
		cancel()
		return fmt.Errorf("listen again on %s: %w", e.Addr, err)
	}
	e.app, e.stop, e.C = a, cancel, a.Container()
	e.done = make(chan error, 1)
	go func() { e.done <- a.Serve(ctx, lis) }()
	return nil
}

// Collect runs one pass of the old-version collector synchronously.
func (e *Env) Collect() error { return verif.Collect(context.Background(), e.C) }

// ErrDrainStuck is returned when barrier jobs are never started.
var ErrDrainStuck = errors.New("drain barrier: jobs not started (pool stuck or stopped)")

// Drain waits until every background job queued so far has finished: it sends
// NumWorkers barrier jobs that each block until all have started; when all run
// at once no other job is running, and the pool's own state (taken under its
// list mutex) must show nothing deferred, no flusher and an empty channel.
func (e *Env) Drain() error {
	pool := verif.ContainerPool(e.C)
	n := e.Cfg.WPool.NumWorkers
	if n < 1 {
		n = 1
	}
	t0 := time.Now()
	for iter := 0; iter < 200; iter++ {
		// do not push barrier jobs on top of jobs that are still moving: the deferred list is
		// last-in-first-out and barrier jobs would overtake and starve them
		for {
			st := pool.VerifState()
			if st.Deferred == 0 && !st.FlusherActive && st.ChanLen == 0 {
				break
			}
			if st.Deferred > 0 && !st.FlusherActive {
				// possibly the stuck state; give a deferred Send in progress a moment, then let the barrier decide
				time.Sleep(2 * time.Millisecond)
				if st2 := pool.VerifState(); st2.Deferred > 0 && !st2.FlusherActive {
					// deferred jobs and nobody to deliver them, seen twice under the pool's own
					// list mutex: they stay until some later Send happens to time out (the
					// barrier below would be that Send, so remember what was seen)
					e.Stranded++
					break
				}
			}
			if time.Since(t0) > 60*time.Second {
				return errors.New("drain barrier: pool still busy after 60 s")
			}
			time.Sleep(200 * time.Microsecond)
		}
		var started, finished sync.WaitGroup
		started.Add(n)
		finished.Add(n)
		release := make(chan struct{})
		for i := 0; i < n; i++ {
			pool.Send(context.Background(), verif.PoolEvent{
				Caller: "verif.barrier",
				Fn: func(context.Context) error {
					started.Done()
					<-release
					finished.Done()
					return nil
				},
			})
		}
		ok := make(chan struct{})
		go func() { started.Wait(); close(ok) }()
		select {
		case <-ok:
		case <-time.After(60 * time.Second):
			close(release)
			return ErrDrainStuck
		}
		// all workers are held by barrier jobs: the only thing that can still move is a flusher
		// that is about to find the list empty (possibly the one that delivered the barrier jobs)
		st := pool.VerifState()
		for w := 0; w < 200 && st.FlusherActive && st.Deferred == 0 && st.ChanLen == 0; w++ {
			time.Sleep(100 * time.Microsecond)
			st = pool.VerifState()
		}
		close(release)
		finished.Wait()
		if st.Deferred == 0 && !st.FlusherActive && st.ChanLen == 0 {
			return nil
		}
	}
	return errors.New("drain barrier: pool never became quiescent")
}

// FileInfo is one regular file below a root.
type FileInfo struct {
	Root string
	Rel  string // path relative to the root
	Size int64
	Sum  string
}

// Walk lists every regular file and directory below the roots.
func (e *Env) Walk(hash bool) (files []FileInfo, dirs map[string][]string, err error) {
	dirs = map[string][]string{}
	for _, root := range e.Cfg.Storage.RootDirs {
		root = filepath.Clean(root)
		err = filepath.WalkDir(root, func(p string, d fs.DirEntry, err error) error {
			if err != nil {
				if errors.Is(err, fs.ErrNotExist) {
					return nil
				}
				return err
			}
			rel, _ := filepath.Rel(root, p)
			if d.IsDir() {
				ents, rerr := os.ReadDir(p)
				if rerr == nil {
					names := make([]string, 0, len(ents))
					for _, en := range ents {
						names = append(names, en.Name())
					}
					dirs[p] = names
				}
				return nil
			}
			fi := FileInfo{Root: root, Rel: rel}
			if info, ierr := d.Info(); ierr == nil {
				fi.Size = info.Size()
			}
			if hash {
				b, rerr := os.ReadFile(p)
				if rerr == nil {
					s := sha256.Sum256(b)
					fi.Sum = hex.EncodeToString(s[:])
					fi.Size = int64(len(b))
				}
			}
			files = append(files, fi)
			return nil
		})
		if err != nil {
			return nil, nil, err
		}
	}
	sort.Slice(files, func(i, j int) bool { return files[i].Root+files[i].Rel < files[j].Root+files[j].Rel })
	return files, dirs, nil
}

// Sum hashes b the way Walk does.
func Sum(b []byte) string {
	s := sha256.Sum256(b)
	return hex.EncodeToString(s[:])
}

// CutAfter arms the proxy: the connection is cut once n more client->server bytes were forwarded.
func (e *Env) CutAfter(n int64) {
	if e.proxy != nil {
		e.proxy.arm(n)
	}
}

// CutNow closes every proxied connection at once (the client reconnects on its own).
func (e *Env) CutNow() {
	if e.proxy == nil {
		return
	}
	e.proxy.mu.Lock()
	conns := e.proxy.conns
	e.proxy.conns = nil
	e.proxy.mu.Unlock()
	for _, c := range conns {
		c.Close()
	}
}

// CutFired tells whether the armed cut happened (and disarms).
func (e *Env) CutFired() bool {
	if e.proxy == nil {
		return false
	}
	return e.proxy.fired()
}

type cutProxy struct {
	lis    net.Listener
	addr   string
	target string
	mu     sync.Mutex
	left   int64 // <0: not armed
	cut    bool
	conns  []net.Conn
}

func newCutProxy(target string) (*cutProxy, error) {
	lis, err := net.Listen("tcp", "127.0.0.1:0")
	if err != nil {
		return nil, err
	}
	p := &cutProxy{lis: lis, addr: lis.Addr().String(), target: target, left: -1}
	go p.serve()
	return p, nil
}

func (p *cutProxy) arm(n int64) { p.mu.Lock(); p.left, p.cut = n, false; p.mu.Unlock() }
func (p *cutProxy) fired() bool {
	p.mu.Lock()
	defer p.mu.Unlock()
	f := p.cut
	p.left, p.cut = -1, false
	return f
}
func (p *cutProxy) close() {
	p.lis.Close()
	p.mu.Lock()
	for _, c := range p.conns {
		c.Close()
	}
	p.mu.Unlock()
}

func (p *cutProxy) serve() {
	for {
		c, err := p.lis.Accept()
		if err != nil {
			return
		}
		s, err := net.Dial("tcp", p.target)
		if err != nil {
			c.Close()
			continue
		}
		p.mu.Lock()
		p.conns = append(p.conns, c, s)
		p.mu.Unlock()
		go func() { io.Copy(c, s); c.Close(); s.Close() }()
		go func() {
			buf := make([]byte, 4096)
			for {
				n, err := c.Read(buf)
				if n > 0 {
					p.mu.Lock()
					cutNow := false
					if p.left >= 0 {
						p.left -= int64(n)
						if p.left <= 0 {
							cutNow, p.cut, p.left = true, true, -1
						}
					}
					p.mu.Unlock()
					if cutNow {
						c.Close()
						s.Close()
						return
					}
					if _, werr := s.Write(buf[:n]); werr != nil {
						c.Close()
						s.Close()
						return
					}
				}
				if err != nil {
					c.Close()
					s.Close()
					return
				}
			}
		}()
	}
}
