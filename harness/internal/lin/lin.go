// Package lin holds the porcupine models used to check recorded histories.
package lin

import (
	"fmt"
	"math"
	"sort"
	"strings"
	"time"

	"github.com/anishathalye/porcupine"

	"verifharness/internal/conc"
	"verifharness/internal/refmodel"
)

const missing = "\x00<missing>"

// regIn is the input of the per-key register model.
type regIn struct {
	Kind string // set delete get exists
	Key  string
	Val  string
	Open bool
}

type regOut struct {
	Class string
	Val   string
	Exist bool
}

// RegisterModel: per-key register, partitioned by key.
var RegisterModel = porcupine.Model{
	Partition: func(h []porcupine.Operation) [][]porcupine.Operation {
		by := map[string][]porcupine.Operation{}
		var keys []string
		for _, op := range h {
			k := op.Input.(regIn).Key
			if _, ok := by[k]; !ok {
				keys = append(keys, k)
			}
			by[k] = append(by[k], op)
		}
		sort.Strings(keys)
		out := make([][]porcupine.Operation, 0, len(keys))
		for _, k := range keys {
			out = append(out, by[k])
		}
		return out
	},
	Init: func() any { return missing },
	Step: func(state, input, output any) (bool, any) {
		in, out, st := input.(regIn), output.(regOut), state.(string)
		switch in.Kind {
		case "set":
			return in.Open || out.Class == "ok", in.Val
		case "delete":
			return in.Open || out.Class == "ok", missing
		case "get":
			if in.Open {
				return true, st
			}
			if st == missing {
				return out.Class == string(refmodel.NotFound), st
			}
			return out.Class == "ok" && out.Val == st, st
		case "exists":
			if in.Open {
				return true, st
			}
			return out.Exist == (st != missing), st
		}
		return false, st
	},
	DescribeOperation: func(input, output any) string {
		in, out := input.(regIn), output.(regOut)
		return fmt.Sprintf("%s(%q,%s) -> %s %s %v", in.Kind, in.Key, short(in.Val), out.Class, short(out.Val), out.Exist)
	},
}

func short(s string) string {
	if i := strings.IndexByte(s, ':'); i > 0 && i < 40 {
		return s[:i]
	}
	if len(s) > 16 {
		return fmt.Sprintf("%x…", s[:8])
	}
	return s
}

// RegisterOps converts recorded autocommit operations into register-model
// operations (GetKeys is projected onto every key of the universe).
func RegisterOps(ops []conc.Op, universe []string) []porcupine.Operation {
	var out []porcupine.Operation
	for _, o := range ops {
		ret := o.Ret
		if o.Open {
			ret = math.MaxInt64 / 2
		}
		switch o.Kind {
		case "set", "create", "setreader":
			out = append(out, porcupine.Operation{ClientId: o.Client, Input: regIn{Kind: "set", Key: o.Key, Val: o.Val, Open: o.Open}, Call: o.Call, Output: regOut{Class: o.Class}, Return: ret})
		case "delete":
			out = append(out, porcupine.Operation{ClientId: o.Client, Input: regIn{Kind: "delete", Key: o.Key, Open: o.Open}, Call: o.Call, Output: regOut{Class: o.Class}, Return: ret})
		case "get", "getreader":
			out = append(out, porcupine.Operation{ClientId: o.Client, Input: regIn{Kind: "get", Key: o.Key, Open: o.Open}, Call: o.Call, Output: regOut{Class: o.Class, Val: o.Out}, Return: ret})
		case "getkeys":
			have := map[string]bool{}
			for _, k := range o.Keys {
				have[k] = true
			}
			for _, k := range universe {
				out = append(out, porcupine.Operation{ClientId: o.Client, Input: regIn{Kind: "exists", Key: k, Open: o.Open}, Call: o.Call, Output: regOut{Class: o.Class, Exist: have[k]}, Return: ret})
			}
		}
	}
	return out
}

// storeState wraps the reference model as an immutable porcupine state.
type storeState struct {
	m     *refmodel.Model
	canon string
}

func (s *storeState) key() string {
	if s.canon == "" {
		s.canon = s.m.Canon() + "\x02"
	}
	return s.canon
}

// StoreModel: the whole store with autocommit callers and RU/RC (and, as
// background, RR/SER) transactions; GetKeys is an atomic multi-key read; the
// collector is a no-op.
var StoreModel = porcupine.Model{
	Init: func() any { return &storeState{m: refmodel.New()} },
	Equal: func(a, b any) bool {
		return a.(*storeState).key() == b.(*storeState).key()
	},
	Step: func(state, input, output any) (bool, any) {
		st := state.(*storeState)
		o := input.(conc.Op)
		switch o.Kind {
		case "begin":
			n := st.m.Clone()
			n.Begin(o.Tx, refmodel.Level(o.Level))
			return o.Open || o.Class == "ok", &storeState{m: n}
		case "set", "create", "setreader", "delete":
			n := st.m.Clone()
			want := n.Write(o.Tx, o.Key, o.Val, o.Kind == "delete")
			return o.Open || o.Class == string(want), &storeState{m: n}
		case "commit":
			n := st.m.Clone()
			want := n.Commit(o.Tx)
			return o.Open || o.Class == string(want), &storeState{m: n}
		case "rollback":
			n := st.m.Clone()
			want := n.Rollback(o.Tx)
			return o.Open || o.Class == string(want), &storeState{m: n}
		case "get", "getreader":
			if o.Open {
				return true, st
			}
			e := st.m.Get(o.Tx, o.Key)
			if len(e.Vals) == 0 {
				return o.Class == string(e.Err), st
			}
			for _, v := range e.Vals {
				if v.Missing && o.Class == string(refmodel.NotFound) {
					return true, st
				}
				if !v.Missing && o.Class == "ok" && o.Out == v.Val {
					return true, st
				}
			}
			return false, st
		case "getkeys":
			if o.Open {
				return true, st
			}
			ke := st.m.GetKeys(o.Tx)
			if ke.Err != "" {
				return o.Class == string(ke.Err), st
			}
			if o.Class != "ok" {
				return false, st
			}
			have := map[string]bool{}
			for _, k := range o.Keys {
				have[k] = true
			}
			allowed := map[string]bool{}
			for _, k := range ke.Must {
				if !have[k] {
					return false, st
				}
				allowed[k] = true
			}
			for _, k := range ke.May {
				allowed[k] = true
			}
			for _, k := range o.Keys {
				if !allowed[k] {
					return false, st
				}
			}
			return true, st
		case "collect":
			return true, st
		}
		return false, st
	},
	DescribeOperation: func(input, output any) string {
		o := input.(conc.Op)
		return fmt.Sprintf("c%d tx%d %s(%q,%s) -> %s %s %q", o.Client, o.Tx, o.Kind, o.Key, short(o.Val), o.Class, short(o.Out), o.Keys)
	},
}

// StoreOps converts recorded operations to whole-store operations.
func StoreOps(ops []conc.Op) []porcupine.Operation {
	out := make([]porcupine.Operation, 0, len(ops))
	for _, o := range ops {
		ret := o.Ret
		if o.Open {
			ret = math.MaxInt64 / 2
		}
		out = append(out, porcupine.Operation{ClientId: o.Client, Input: o, Call: o.Call, Output: o, Return: ret})
	}
	return out
}

// Check runs porcupine with a time-out; returns "ok", "illegal" or "unknown".
func Check(model porcupine.Model, ops []porcupine.Operation, timeout time.Duration) string {
	res, _ := porcupine.CheckOperationsVerbose(model, ops, timeout)
	switch res {
	case porcupine.Ok:
		return "ok"
	case porcupine.Illegal:
		return "illegal"
	}
	return "unknown"
}
