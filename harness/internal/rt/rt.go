// Package rt is the run-time shared by all property drivers: case results,
// sharding over child processes, violation reporting against the committed
// known-findings file, and the evidence writer.
package rt

import (
	"bufio"
	"encoding/json"
	"fmt"
	"os"
	"os/exec"
	"path/filepath"
	"regexp"
	"sort"
	"strconv"
	"strings"
	"sync"
	"time"
)

// VerifDir is the root of the verification tree.
func VerifDir() string {
	if d := os.Getenv("VERIF_DIR"); d != "" {
		return d
	}
	return "/verif"
}

// OutDir is where evidence and replays are written (VERIF_OUT_DIR, default the
// verification tree; self-validation runs against scratch copies redirect it).
func OutDir() string {
	if d := os.Getenv("VERIF_OUT_DIR"); d != "" {
		return d
	}
	return VerifDir()
}

// Seed returns VERIF_SEED (default 1).
func Seed() int64 {
	if s := os.Getenv("VERIF_SEED"); s != "" {
		if v, err := strconv.ParseInt(s, 10, 64); err == nil {
			return v
		}
	}
	return 1
}

// ScratchBase returns the directory for scratch data.
func ScratchBase() string {
	if d := os.Getenv("VERIF_SCRATCH"); d != "" {
		return d
	}
	if st, err := os.Stat("/dev/shm"); err == nil && st.IsDir() {
		if f, err := os.CreateTemp("/dev/shm", "vprobe"); err == nil {
			f.Close()
			os.Remove(f.Name())
			return "/dev/shm/verif-scratch"
		}
	}
	return "/var/tmp/verif-scratch"
}

// Violation is one refutation of the property.
type Violation struct {
	Sig    string `json:"sig"`    // stable signature (anomaly class + operation + site)
	What   string `json:"what"`   // human readable description
	Replay any    `json:"replay"` // witness: history, seed, expected/actual
}

// CaseResult is what one case contributes.
type CaseResult struct {
	Idx          int                 `json:"idx"`
	Evals        int64               `json:"evals"`
	Distinct     []string            `json:"distinct,omitempty"`
	Sample       any                 `json:"sample,omitempty"`
	Violations   []Violation         `json:"violations,omitempty"`
	Counters     map[string]int64    `json:"counters,omitempty"`
	Inconclusive []string            `json:"inconclusive,omitempty"`
	Sets         map[string][]string `json:"sets,omitempty"` // named sets of observed things (merged by union)
}

// Add helpers.
func (c *CaseResult) Count(name string, n int64) {
	if c.Counters == nil {
		c.Counters = map[string]int64{}
	}
	c.Counters[name] += n
}

func (c *CaseResult) Observe(set, item string) {
	if c.Sets == nil {
		c.Sets = map[string][]string{}
	}
	for _, x := range c.Sets[set] {
		if x == item {
			return
		}
	}
	c.Sets[set] = append(c.Sets[set], item)
}

func (c *CaseResult) AddDistinct(k string) {
	for _, x := range c.Distinct {
		if x == k {
			return
		}
	}
	c.Distinct = append(c.Distinct, k)
}

func (c *CaseResult) Violate(sig, what string, replay any) {
	c.Violations = append(c.Violations, Violation{Sig: sig, What: what, Replay: replay})
}

// Run accumulates a whole check.
type Run struct {
	Prop, Tier, Level string
	SeedV             int64
	Rule              string
	Assumptions       []string
	Exhaustive        bool

	mu         sync.Mutex
	start      time.Time
	evals      int64
	distinct   map[string]struct{}
	samples    []any
	counters   map[string]int64
	sets       map[string]map[string]struct{}
	violations []Violation
	inconcl    []string
	extra      map[string]any
	known      []kfEntry
}

// NewRun starts a run.
func NewRun(prop, tier, level string) *Run {
	return &Run{Prop: prop, Tier: tier, Level: level, SeedV: Seed(), start: time.Now(),
		distinct: map[string]struct{}{}, counters: map[string]int64{}, sets: map[string]map[string]struct{}{}, extra: map[string]any{}}
}

// Extra records an additional coverage key.
func (r *Run) Extra(k string, v any) { r.mu.Lock(); r.extra[k] = v; r.mu.Unlock() }

// Counter returns a merged counter.
func (r *Run) Counter(k string) int64 { r.mu.Lock(); defer r.mu.Unlock(); return r.counters[k] }

// SetSize returns the size of a merged observation set.
func (r *Run) SetSize(k string) int { r.mu.Lock(); defer r.mu.Unlock(); return len(r.sets[k]) }

// Merge adds a case result.
func (r *Run) Merge(c CaseResult) {
	r.mu.Lock()
	defer r.mu.Unlock()
	r.evals += c.Evals
	for _, d := range c.Distinct {
		r.distinct[d] = struct{}{}
	}
	if c.Sample != nil && len(r.samples) < 4 {
		r.samples = append(r.samples, c.Sample)
	}
	for k, v := range c.Counters {
		r.counters[k] += v
	}
	for k, items := range c.Sets {
		if r.sets[k] == nil {
			r.sets[k] = map[string]struct{}{}
		}
		for _, it := range items {
			r.sets[k][it] = struct{}{}
		}
	}
	r.violations = append(r.violations, c.Violations...)
	r.inconcl = append(r.inconcl, c.Inconclusive...)
}

type kfEntry struct {
	prop string
	sig  *regexp.Regexp
	raw  string
	what string
}

func loadKnown(prop string) []kfEntry {
	f, err := os.Open(filepath.Join(VerifDir(), "KNOWN_FINDINGS.txt"))
	if err != nil {
		return nil
	}
	defer f.Close()
	var out []kfEntry
	sc := bufio.NewScanner(f)
	re := regexp.MustCompile(`^finding:\s+property=(\S+)\s+sig="([^"]*)"\s+(.*)$`)
	for sc.Scan() {
		m := re.FindStringSubmatch(strings.TrimSpace(sc.Text()))
		if m == nil || m[1] != prop {
			continue
		}
		rx, err := regexp.Compile("^" + m[2] + "$")
		if err != nil {
			continue
		}
		out = append(out, kfEntry{prop: m[1], sig: rx, raw: m[2], what: m[3]})
	}
	return out
}

// Finish prints verdict lines, writes replays and the evidence file and
// returns the exit code.
func (r *Run) Finish() int {
	r.mu.Lock()
	defer r.mu.Unlock()
	known := loadKnown(r.Prop)
	replayDir := filepath.Join(OutDir(), "replays", r.Prop)
	os.RemoveAll(replayDir)
	unlisted := 0
	knownHits := map[string]int{}
	seenSig := map[string]int{}
	for _, v := range r.violations {
		matched := false
		for _, k := range known {
			if k.sig.MatchString(v.Sig) {
				knownHits[k.raw+"\x00"+k.what]++
				matched = true
				break
			}
		}
		if matched {
			continue
		}
		unlisted++
		seenSig[v.Sig]++
		if seenSig[v.Sig] > 3 { // keep at most three witnesses per signature
			continue
		}
		os.MkdirAll(replayDir, 0o755)
		p := filepath.Join(replayDir, fmt.Sprintf("%s-%03d.json", sanitize(v.Sig), seenSig[v.Sig]))
		b, _ := json.MarshalIndent(map[string]any{"property": r.Prop, "seed": r.SeedV, "tier": r.Tier, "sig": v.Sig, "what": v.What, "replay": v.Replay}, "", " ")
		os.WriteFile(p, b, 0o644)
		fmt.Printf("VIOLATION property=%s replay=%s\n", r.Prop, p)
		fmt.Printf("  sig: %s\n  what: %s\n", v.Sig, v.What)
	}
	var khKeys []string
	for k := range knownHits {
		khKeys = append(khKeys, k)
	}
	sort.Strings(khKeys)
	for _, k := range khKeys {
		parts := strings.SplitN(k, "\x00", 2)
		fmt.Printf("KNOWN-FINDING: property=%s %s (sig %q, observed %d times in this run)\n", r.Prop, parts[1], parts[0], knownHits[k])
	}
	wall := time.Since(r.start).Seconds()
	cov := map[string]any{
		"evaluations":         r.evals,
		"distinct_nontrivial": len(r.distinct),
		"rule":                r.Rule,
		"samples":             r.samples,
		"counters":            r.counters,
		"inconclusive":        len(r.inconcl),
	}
	if r.Exhaustive {
		cov["exhaustive"] = true
	}
	obs := map[string]any{}
	for k, s := range r.sets {
		items := make([]string, 0, len(s))
		for it := range s {
			items = append(items, it)
		}
		sort.Strings(items)
		if len(items) > 60 {
			obs[k] = map[string]any{"count": len(items), "first": items[:60]}
		} else {
			obs[k] = map[string]any{"count": len(items), "items": items}
		}
	}
	cov["observed"] = obs
	if len(r.inconcl) > 0 {
		n := r.inconcl
		if len(n) > 10 {
			n = n[:10]
		}
		cov["inconclusive_notes"] = n
	}
	if len(knownHits) > 0 {
		cov["known_findings_observed"] = knownHits2(knownHits)
	}
	for k, v := range r.extra {
		cov[k] = v
	}
	if len(r.samples) == 0 {
		cov["samples"] = []any{"(no case produced a sample)"}
	}
	ev := map[string]any{
		"property_id": r.Prop, "tier": r.Tier, "seed": r.SeedV, "level": r.Level,
		"coverage": cov, "assumptions": r.Assumptions, "wall_s": wall, "violations": unlisted,
	}
	os.MkdirAll(filepath.Join(OutDir(), "evidence"), 0o755)
	b, _ := json.MarshalIndent(ev, "", " ")
	os.WriteFile(filepath.Join(OutDir(), "evidence", r.Prop+".json"), append(b, '\n'), 0o644)
	fmt.Printf("%s %s seed=%d: evaluations=%d distinct_nontrivial=%d violations=%d known=%d inconclusive=%d wall=%.1fs\n",
		r.Prop, r.Tier, r.SeedV, r.evals, len(r.distinct), unlisted, len(knownHits), len(r.inconcl), wall)
	if unlisted > 0 {
		return 1
	}
	if r.evals == 0 || len(r.distinct) < 2 {
		fmt.Printf("CHECK-ERROR property=%s: nothing conclusive was observed (evaluations=%d distinct=%d)\n", r.Prop, r.evals, len(r.distinct))
		return 3
	}
	return 0
}

func knownHits2(m map[string]int) map[string]int {
	out := map[string]int{}
	for k, v := range m {
		out[strings.SplitN(k, "\x00", 2)[0]] = v
	}
	return out
}

func sanitize(s string) string {
	s = regexp.MustCompile(`[^A-Za-z0-9_.-]+`).ReplaceAllString(s, "_")
	if len(s) > 80 {
		s = s[:80]
	}
	return s
}

// ---------------------------------------------------------------------------
// Sharding over child processes.

// CaseFunc runs case idx and returns its result.
type CaseFunc func(idx int, scratch string) CaseResult

// ChildSpec describes how to run cases in children.
type ChildSpec struct {
	Binary   string        // executable (default: os.Args[0])
	Role     string        // role name passed to the child
	N        int           // number of cases
	Procs    int           // parallel children (default 16)
	Batch    int           // cases per child invocation (default: N/Procs rounded up)
	Timeout  time.Duration // per child (backstop; firing is inconclusive)
	Env      []string      // extra environment
	PanicSig string        // signature prefix for crashes (default "panic")
}

// RunChildren runs N cases in child processes and merges the results. A child
// that dies takes only its current case with it: the stderr of the child is the
// witness; a panic or fatal error is a violation, anything else inconclusive.
func (r *Run) RunChildren(spec ChildSpec) {
	if spec.Binary == "" {
		spec.Binary, _ = os.Executable()
	}
	if spec.Procs <= 0 {
		spec.Procs = 16
	}
	if spec.Procs > spec.N {
		spec.Procs = spec.N
	}
	if spec.N == 0 {
		return
	}
	if spec.Batch <= 0 {
		spec.Batch = (spec.N + spec.Procs - 1) / spec.Procs
	}
	if spec.Timeout == 0 {
		spec.Timeout = 20 * time.Minute
		if r.Tier == "thorough" {
			// a batch of the thorough tier takes minutes on an idle machine and much longer on a
			// loaded one; the backstop only has to end runs that are really stuck (the in-child
			// watchdog classifies those long before)
			spec.Timeout = 2 * time.Hour
		}
	}
	base := filepath.Join(ScratchBase(), fmt.Sprintf("%s-%d", r.Prop, os.Getpid()))
	os.MkdirAll(base, 0o755)
	defer os.RemoveAll(base)

	type job struct{ lo, hi int }
	jobs := make(chan job, spec.N)
	for lo := 0; lo < spec.N; lo += spec.Batch {
		hi := lo + spec.Batch
		if hi > spec.N {
			hi = spec.N
		}
		jobs <- job{lo, hi}
	}
	close(jobs)
	var wg sync.WaitGroup
	for p := 0; p < spec.Procs; p++ {
		wg.Add(1)
		go func(p int) {
			defer wg.Done()
			for j := range jobs {
				lo := j.lo
				for lo < j.hi {
					// a broken tree fails again and again (and dead-locks cost a watchdog period
					// each): once enough violations are on record the remaining cases add nothing
					if r.violationCount() >= maxViolationsBeforeAbort {
						r.noteAbort()
						return
					}
					lo = r.runChild(spec, base, lo, j.hi)
				}
			}
		}(p)
	}
	wg.Wait()
}

const maxViolationsBeforeAbort = 12

// violationCount counts the violations that are not listed as known findings: known findings
// must never stop the remaining cases from running (they would hide what those cases find).
func (r *Run) violationCount() int {
	r.mu.Lock()
	defer r.mu.Unlock()
	if r.known == nil {
		r.known = loadKnown(r.Prop)
		if r.known == nil {
			r.known = []kfEntry{}
		}
	}
	n := 0
	for _, v := range r.violations {
		listed := false
		for _, k := range r.known {
			if k.sig.MatchString(v.Sig) {
				listed = true
				break
			}
		}
		if !listed {
			n++
		}
	}
	return n
}

func (r *Run) noteAbort() {
	r.mu.Lock()
	r.extra["aborted_early"] = fmt.Sprintf("stopped scheduling cases after %d violations", len(r.violations))
	r.mu.Unlock()
}

// runChild runs cases [lo,hi) in one child; returns the next case to run.
func (r *Run) runChild(spec ChildSpec, base string, lo, hi int) int {
	dir := filepath.Join(base, fmt.Sprintf("c%d", lo))
	os.MkdirAll(dir, 0o755)
	defer os.RemoveAll(dir)
	out := filepath.Join(dir, "results.jsonl")
	logf := filepath.Join(dir, "child.log")
	lf, _ := os.Create(logf)
	cmd := exec.Command("timeout", "-s", "QUIT", fmt.Sprintf("%d", int(spec.Timeout.Seconds())),
		spec.Binary, "child", spec.Role, r.Prop, r.Tier, strconv.FormatInt(r.SeedV, 10), strconv.Itoa(lo), strconv.Itoa(hi), out, filepath.Join(dir, "scratch"))
	cmd.Stdout, cmd.Stderr = lf, lf
	cmd.Env = append(os.Environ(), spec.Env...)
	err := cmd.Run()
	lf.Close()
	started, finished := -1, map[int]bool{}
	if f, ferr := os.Open(out); ferr == nil {
		sc := bufio.NewScanner(f)
		sc.Buffer(make([]byte, 1<<20), 1<<28)
		for sc.Scan() {
			line := sc.Bytes()
			if strings.HasPrefix(string(line), "START ") {
				started, _ = strconv.Atoi(strings.TrimPrefix(string(line), "START "))
				continue
			}
			var c CaseResult
			if json.Unmarshal(line, &c) == nil {
				r.Merge(c)
				finished[c.Idx] = true
			}
		}
		f.Close()
	}
	if err == nil {
		return hi
	}
	// the child died
	logb, _ := os.ReadFile(logf)
	logs := string(logb)
	if len(logs) > 200_000 {
		logs = logs[:100_000] + "\n...\n" + logs[len(logs)-100_000:]
	}
	crashed := started
	if crashed < 0 || finished[crashed] {
		r.mu.Lock()
		r.inconcl = append(r.inconcl, fmt.Sprintf("child for cases [%d,%d) failed outside a case: %v: %s", lo, hi, err, tail(logs, 400)))
		r.mu.Unlock()
		return hi
	}
	psig := spec.PanicSig
	if psig == "" {
		psig = "panic"
	}
	switch {
	case strings.Contains(logs, "VERIF-DEADLOCK"):
		r.Merge(CaseResult{Idx: crashed, Violations: []Violation{{Sig: "deadlock " + firstMatch(logs, `VERIF-DEADLOCK (.*)`), What: "client goroutines parked in fs_db blocking primitives in two goroutine dumps", Replay: map[string]any{"case": crashed, "role": spec.Role, "log": logs}}}})
	case strings.Contains(logs, "VERIF-WATCHDOG"):
		r.Merge(CaseResult{Idx: crashed, Inconclusive: []string{fmt.Sprintf("case %d: watchdog fired without a clear dead-lock: %s", crashed, tail(logs, 300))}})
	case strings.Contains(logs, "panic:") || strings.Contains(logs, "fatal error:"):
		r.Merge(CaseResult{Idx: crashed, Violations: []Violation{{Sig: psig + " " + panicSite(logs), What: "the process panicked while running the case: " + firstMatch(logs, `((?:panic|fatal error):.*)`), Replay: map[string]any{"case": crashed, "role": spec.Role, "log": logs}}}})
	default:
		r.Merge(CaseResult{Idx: crashed, Inconclusive: []string{fmt.Sprintf("case %d: child died (%v): %s", crashed, err, tail(logs, 300))}})
	}
	return crashed + 1
}

func tail(s string, n int) string {
	if len(s) > n {
		return s[len(s)-n:]
	}
	return s
}

func firstMatch(s, re string) string {
	m := regexp.MustCompile(re).FindStringSubmatch(s)
	if m == nil {
		return ""
	}
	return m[1]
}

// panicSite extracts the innermost fs_db frame after a panic for a stable signature.
func panicSite(logs string) string {
	i := strings.Index(logs, "panic:")
	if j := strings.Index(logs, "fatal error:"); j >= 0 && (i < 0 || j < i) {
		i = j
	}
	if i < 0 {
		return "unknown"
	}
	re := regexp.MustCompile(`github\.com/glebziz/fs_db(?:/[\w./-]+)?\.(?:\(\*?\w+(?:\[[^\]]*\])?\)\.)?\w+(?:\.func\d+)*`)
	m := re.FindString(logs[i:])
	if m == "" {
		return "no-fs_db-frame"
	}
	m = strings.TrimPrefix(m, "github.com/glebziz/fs_db/")
	return regexp.MustCompile(`\[[^\]]*\]`).ReplaceAllString(m, "")
}

// ChildMain is called by the child process: it runs cases lo..hi-1.
func ChildMain(args []string, f CaseFunc) {
	// args: lo hi out scratch
	lo, _ := strconv.Atoi(args[0])
	hi, _ := strconv.Atoi(args[1])
	out, scratch := args[2], args[3]
	of, err := os.OpenFile(out, os.O_CREATE|os.O_WRONLY|os.O_APPEND, 0o644)
	if err != nil {
		fmt.Fprintln(os.Stderr, "child: open out:", err)
		os.Exit(2)
	}
	for i := lo; i < hi; i++ {
		Beat()
		fmt.Fprintf(of, "START %d\n", i)
		fmt.Fprintf(os.Stderr, "CASE %d\n", i)
		dir := filepath.Join(scratch, fmt.Sprintf("case%d", i))
		os.MkdirAll(dir, 0o755)
		c := f(i, dir)
		c.Idx = i
		os.RemoveAll(dir)
		b, _ := json.Marshal(c)
		of.Write(append(b, '\n'))
	}
	of.Close()
}
