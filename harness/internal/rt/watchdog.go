package rt

import (
	"bytes"
	"fmt"
	"os"
	"regexp"
	"runtime/pprof"
	"strings"
	"sync/atomic"
	"time"
)

var (
	lastBeat   atomic.Int64
	wdLimit    atomic.Int64
	wdClientRe atomic.Pointer[regexp.Regexp]
)

// Beat tells the watchdog that the child makes progress.
func Beat() { lastBeat.Store(time.Now().UnixNano()) }

// SetWatchdogLimit sets the silence after which the watchdog fires.
func SetWatchdogLimit(d time.Duration) { wdLimit.Store(int64(d)) }

// StartWatchdog starts the in-process watchdog of a child: when no Beat
// arrived for the limit (default 120 s) it dumps all goroutines twice, two
// seconds apart, classifies the state and exits.
func StartWatchdog() {
	Beat()
	if wdLimit.Load() == 0 {
		wdLimit.Store(int64(120 * time.Second))
	}
	go func() {
		for {
			time.Sleep(500 * time.Millisecond)
			if time.Since(time.Unix(0, lastBeat.Load())) < time.Duration(wdLimit.Load()) {
				continue
			}
			d1 := dump()
			time.Sleep(2 * time.Second)
			d2 := dump()
			site, dead := ClassifyDeadlock(d1, d2)
			if dead {
				fmt.Fprintf(os.Stderr, "VERIF-DEADLOCK %s\n", site)
			} else {
				fmt.Fprintf(os.Stderr, "VERIF-WATCHDOG no progress for %s, state unclear: %s\n", time.Duration(wdLimit.Load()), site)
			}
			fmt.Fprintf(os.Stderr, "=== goroutine dump 1 ===\n%s\n=== goroutine dump 2 ===\n%s\n", d1, d2)
			os.Exit(97)
		}
	}()
}

func dump() string {
	var b bytes.Buffer
	pprof.Lookup("goroutine").WriteTo(&b, 2)
	return b.String()
}

var blockedStates = []string{"sync.Mutex.Lock", "sync.RWMutex.Lock", "sync.RWMutex.RLock", "sync.Cond.Wait", "sync.WaitGroup.Wait", "semacquire", "chan send", "chan receive", "select"}

// ClassifyDeadlock decides from two goroutine dumps whether the process is
// dead-locked inside fs_db: in both dumps at least one goroutine with an fs_db
// frame is parked in a blocking primitive at the same fs_db call site, and no
// goroutine with an fs_db frame is running, runnable or in a system call.
func ClassifyDeadlock(d1, d2 string) (site string, dead bool) {
	s1, ok1 := blockedSites(d1)
	s2, ok2 := blockedSites(d2)
	if !ok1 || !ok2 || len(s1) == 0 {
		return "fs_db goroutines still running or none blocked", false
	}
	var common []string
	for s := range s1 {
		if s2[s] {
			common = append(common, s)
		}
	}
	if len(common) == 0 {
		return "blocked sites changed between dumps", false
	}
	sortStrings(common)
	return strings.Join(common, ","), true
}

func sortStrings(s []string) {
	for i := 1; i < len(s); i++ {
		for j := i; j > 0 && s[j] < s[j-1]; j-- {
			s[j], s[j-1] = s[j-1], s[j]
		}
	}
}

var (
	goHdr   = regexp.MustCompile(`^goroutine \d+ \[([^\],]+)`)
	fsFrame = regexp.MustCompile(`^github\.com/glebziz/fs_db(?:/[\w./-]+)?\.([\w.()*\[\]·]+)\(`)
)

func blockedSites(d string) (map[string]bool, bool) {
	sites := map[string]bool{}
	for _, g := range strings.Split(d, "\n\n") {
		lines := strings.Split(strings.TrimSpace(g), "\n")
		if len(lines) == 0 {
			continue
		}
		m := goHdr.FindStringSubmatch(lines[0])
		if m == nil {
			continue
		}
		state := m[1]
		var first string
		for _, l := range lines[1:] {
			if fm := fsFrame.FindStringSubmatch(l); fm != nil {
				first = regexp.MustCompile(`\[[^\]]*\]`).ReplaceAllString(fm[1], "")
				break
			}
		}
		if first == "" {
			continue
		}
		// background goroutines of fs_db that legitimately wait forever
		if strings.Contains(first, "Pool).run") || strings.Contains(first, "Pool).Sched") || strings.Contains(first, "VerifApp).Serve") {
			continue
		}
		blocked := false
		for _, b := range []string{"sync.Mutex.Lock", "sync.RWMutex.Lock", "sync.RWMutex.RLock", "sync.Cond.Wait", "sync.WaitGroup.Wait", "semacquire", "chan send", "chan receive", "select"} {
			if strings.HasPrefix(state, b) {
				blocked = true
			}
		}
		if !blocked {
			return nil, false // an fs_db goroutine is running / runnable / in a syscall / sleeping
		}
		sites[first] = true
	}
	return sites, true
}
