// Package conc holds the concurrency drivers: the hook tracer, steering
// gates (park one goroutine at a hook point until another event happened or a
// bounded wait expired), seeded perturbation, and the client-side history
// recorder.
package conc

import (
	"bytes"
	"runtime"
	"strconv"
	"sync"
	"sync/atomic"
	"time"

	"github.com/glebziz/fs_db/pkg/verif"
)

// Goid returns the id of the calling goroutine.
func Goid() int64 {
	var buf [64]byte
	n := runtime.Stack(buf[:], false)
	// "goroutine 123 ["
	b := buf[len("goroutine "):n]
	i := bytes.IndexByte(b, ' ')
	id, _ := strconv.ParseInt(string(b[:i]), 10, 64)
	return id
}

// Event is one hook event.
type Event struct {
	N     int64  `json:"n"`
	G     int64  `json:"g"`
	Point string `json:"point"`
	ID    string `json:"id,omitempty"`
	T     int64  `json:"t"` // ns since tracer start
}

// Gate parks the goroutine WaitG (0 = any) when it reaches WaitPoint until an
// event (SigPoint by SigG, 0 = any; SigID "" = any, "=" = same id as the waiter)
// has happened, or Timeout expired. Each gate is used once.
type Gate struct {
	WaitPoint string
	WaitG     int64
	SigPoint  string
	SigG      int64
	NotSigG   int64 // the signalling goroutine must differ from this one
	SameID    bool
	Timeout   time.Duration
	Skip      int // arrivals of the waiter at WaitPoint that pass before it is parked
	SigSkip   int // matching events that are ignored before one releases the gate

	mu        sync.Mutex
	ch        chan struct{}
	waiting   bool
	waitID    string
	used      bool
	Signalled bool // released by the event
	TimedOut  bool // released by the bounded wait
	Reached   bool // the waiter reached its point
	earlySig  bool
}

// Tracer is the hook handler.
type Tracer struct {
	start   time.Time
	mu      sync.Mutex
	events  []Event
	n       int64
	record  bool
	gates   []*Gate
	perturb int32 // percentage of hook passages that yield or sleep
	maxUs   int32
	rnd     uint64
	counts  sync.Map // point -> *int64
	slow    sync.Map // point -> time.Duration
}

// SlowPoint makes every passage of a hook point sleep for d (widens the window after it).
func (t *Tracer) SlowPoint(point string, d time.Duration) { t.slow.Store(point, d) }

// NewTracer creates a tracer; record=false keeps only counts.
func NewTracer(record bool) *Tracer {
	return &Tracer{start: time.Now(), record: record, rnd: 0x9E3779B97F4A7C15}
}

// Install makes the tracer the hook handler.
func (t *Tracer) Install() { verif.SetHandler(t.Handle) }

// Uninstall removes the hook handler.
func Uninstall() { verif.SetHandler(nil) }

// Perturb sets the percentage of hook passages that yield or sleep up to maxUs.
func (t *Tracer) Perturb(pct, maxUs int, seed uint64) {
	atomic.StoreInt32(&t.perturb, int32(pct))
	atomic.StoreInt32(&t.maxUs, int32(maxUs))
	atomic.StoreUint64(&t.rnd, seed|1)
}

// AddGate arms a gate.
func (t *Tracer) AddGate(g *Gate) *Gate {
	g.ch = make(chan struct{})
	t.mu.Lock()
	t.gates = append(t.gates, g)
	t.mu.Unlock()
	return g
}

// ClearGates removes all gates (releasing waiters).
func (t *Tracer) ClearGates() {
	t.mu.Lock()
	for _, g := range t.gates {
		g.mu.Lock()
		if !g.Signalled && !g.TimedOut {
			select {
			case <-g.ch:
			default:
				close(g.ch)
			}
		}
		g.mu.Unlock()
	}
	t.gates = nil
	t.mu.Unlock()
}

// Now returns ns since the tracer started (the one monotonic clock of a run).
func (t *Tracer) Now() int64 { return int64(time.Since(t.start)) }

// Events returns a copy of the recorded events.
func (t *Tracer) Events() []Event {
	t.mu.Lock()
	defer t.mu.Unlock()
	return append([]Event(nil), t.events...)
}

// Count returns how often a point was passed.
func (t *Tracer) Count(point string) int64 {
	if v, ok := t.counts.Load(point); ok {
		return atomic.LoadInt64(v.(*int64))
	}
	return 0
}

// Counts returns all point counters.
func (t *Tracer) Counts() map[string]int64 {
	out := map[string]int64{}
	t.counts.Range(func(k, v any) bool { out[k.(string)] = atomic.LoadInt64(v.(*int64)); return true })
	return out
}

func (t *Tracer) next() uint64 {
	for {
		x := atomic.LoadUint64(&t.rnd)
		y := x
		y ^= y << 13
		y ^= y >> 7
		y ^= y << 17
		if atomic.CompareAndSwapUint64(&t.rnd, x, y) {
			return y
		}
	}
}

// Handle is the hook handler.
func (t *Tracer) Handle(point, id string) {
	v, ok := t.counts.Load(point)
	if !ok {
		v, _ = t.counts.LoadOrStore(point, new(int64))
	}
	atomic.AddInt64(v.(*int64), 1)
	var gid int64
	t.mu.Lock()
	gates := t.gates
	if t.record || len(gates) > 0 {
		t.mu.Unlock()
		gid = Goid()
		t.mu.Lock()
		gates = t.gates
	}
	if t.record {
		t.n++
		t.events = append(t.events, Event{N: t.n, G: gid, Point: point, ID: id, T: int64(time.Since(t.start))})
	}
	t.mu.Unlock()
	// signal
	for _, g := range gates {
		if g.SigPoint != point || (g.SigG != 0 && g.SigG != gid) || (g.NotSigG != 0 && g.NotSigG == gid) {
			continue
		}
		g.mu.Lock()
		if !g.Signalled && !g.TimedOut {
			if g.SameID && g.waiting && g.waitID != id {
				g.mu.Unlock()
				continue
			}
			if g.SameID && !g.waiting {
				g.mu.Unlock()
				continue
			}
			if g.SigSkip > 0 {
				g.SigSkip--
				g.mu.Unlock()
				continue
			}
			g.Signalled = true
			if !g.waiting {
				g.earlySig = true
			}
			close(g.ch)
		}
		g.mu.Unlock()
	}
	// wait
	for _, g := range gates {
		if g.WaitPoint != point || (g.WaitG != 0 && g.WaitG != gid) {
			continue
		}
		g.mu.Lock()
		if g.used {
			g.mu.Unlock()
			continue
		}
		if g.Skip > 0 {
			g.Skip--
			g.mu.Unlock()
			continue
		}
		g.used, g.waiting, g.waitID, g.Reached = true, true, id, true
		ch := g.ch
		g.mu.Unlock()
		to := g.Timeout
		if to == 0 {
			to = 200 * time.Millisecond
		}
		select {
		case <-ch:
		case <-time.After(to):
			g.mu.Lock()
			if !g.Signalled {
				g.TimedOut = true
			}
			g.mu.Unlock()
		}
		g.mu.Lock()
		g.waiting = false
		g.mu.Unlock()
	}
	if d, ok := t.slow.Load(point); ok {
		time.Sleep(d.(time.Duration))
	}
	if p := atomic.LoadInt32(&t.perturb); p > 0 {
		r := t.next()
		if int32(r%100) < p {
			if r&0x100 == 0 {
				runtime.Gosched()
			} else if mu := atomic.LoadInt32(&t.maxUs); mu > 0 {
				time.Sleep(time.Duration((r>>16)%uint64(mu)) * time.Microsecond)
			}
		}
	}
}

// Outcome of a gate after the run: "hit" (waiter parked and was released by
// the event), "timeout" (parked, event never came: order not reachable or
// window missed), "early" (event came before the waiter arrived), "unreached".
func (g *Gate) Outcome() string {
	g.mu.Lock()
	defer g.mu.Unlock()
	switch {
	case !g.Reached && g.Signalled:
		return "early"
	case !g.Reached:
		return "unreached"
	case g.earlySig:
		return "early"
	case g.Signalled:
		return "hit"
	case g.TimedOut:
		return "timeout"
	}
	return "pending"
}

// ---------------------------------------------------------------------------

// Op is one client operation recorded at the client boundary.
type Op struct {
	Client int      `json:"client"`
	G      int64    `json:"g"`
	Kind   string   `json:"kind"` // set delete get getkeys begin commit rollback create collect
	Tx     int      `json:"tx"`   // -1 autocommit
	Level  int      `json:"level,omitempty"`
	Key    string   `json:"key,omitempty"`
	Val    string   `json:"val,omitempty"`  // value written
	Out    string   `json:"out,omitempty"`  // value read
	Keys   []string `json:"keys,omitempty"` // GetKeys result
	Class  string   `json:"class"`          // result class
	Err    string   `json:"err,omitempty"`
	Call   int64    `json:"call"`
	Ret    int64    `json:"ret"` // 0 while open
	Open   bool     `json:"open,omitempty"`
}

// Recorder collects the operations of one client (not shared between goroutines).
type Recorder struct {
	Client int
	G      int64
	T      *Tracer
	Ops    []Op
}

// Begin stamps the call of an operation.
func (r *Recorder) Begin(op Op) int {
	op.Client, op.G = r.Client, r.G
	op.Open = true
	op.Call = r.T.Now()
	r.Ops = append(r.Ops, op)
	return len(r.Ops) - 1
}

// End stamps the return.
func (r *Recorder) End(i int, class, out string, keys []string, err error) {
	o := &r.Ops[i]
	o.Ret = r.T.Now()
	o.Open = false
	o.Class, o.Out, o.Keys = class, out, keys
	if err != nil {
		o.Err = err.Error()
		if len(o.Err) > 200 {
			o.Err = o.Err[:200]
		}
	}
}

// WaitReached blocks until the waiter is parked at the gate (or d passed).
func (g *Gate) WaitReached(d time.Duration) bool {
	deadline := time.Now().Add(d)
	for time.Now().Before(deadline) {
		g.mu.Lock()
		r := g.Reached
		g.mu.Unlock()
		if r {
			return true
		}
		time.Sleep(200 * time.Microsecond)
	}
	return false
}

// Release opens the gate by hand.
func (g *Gate) Release() {
	g.mu.Lock()
	if !g.Signalled && !g.TimedOut {
		g.Signalled = true
		close(g.ch)
	}
	g.mu.Unlock()
}
