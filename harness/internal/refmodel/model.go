// Package refmodel is an executable, sequential specification of the fs_db
// store semantics (properties C01-C03, C05, C09, C13), written from the property
// statements. It imports nothing from fs_db.
package refmodel

import (
	"sort"
)

// Level is a transaction isolation level.
type Level int

const (
	RU Level = iota
	RC
	RR
	SER
)

func (l Level) String() string {
	return [...]string{"RU", "RC", "RR", "SER"}[l]
}

// ErrClass is the class of an error as judged by errors.Is against the
// exported sentinels.
type ErrClass string

const (
	OK           ErrClass = "ok"
	NotFound     ErrClass = "ErrNotFound"
	EmptyKey     ErrClass = "ErrEmptyKey"
	TxNotFound   ErrClass = "ErrTxNotFound"
	TxSerial     ErrClass = "ErrTxSerialization"
	NoFreeSpace  ErrClass = "ErrNoFreeSpace"
	OtherErr     ErrClass = "other"
	Autocommit            = -1
	maxVersSaved          = 1 << 30
)

type ver struct {
	val  string
	tomb bool
	tw   int // logical time of the write call
	tc   int // logical time of the commit (== tw for autocommit)
}

type tx struct {
	level  Level
	tBegin int
	open   bool
	own    map[string]ver
}

// Model is the reference state.
type Model struct {
	t         int
	committed map[string][]ver
	txs       map[int]*tx
}

// New returns an empty model.
func New() *Model {
	return &Model{committed: map[string][]ver{}, txs: map[int]*tx{}}
}

func (m *Model) tick() int { m.t++; return m.t }

// Begin opens transaction id at the level.
func (m *Model) Begin(id int, l Level) {
	m.txs[id] = &tx{level: l, tBegin: m.tick(), open: true, own: map[string]ver{}}
}

// IsOpen tells whether actor is the autocommit caller or an open transaction.
func (m *Model) IsOpen(actor int) bool {
	if actor == Autocommit {
		return true
	}
	t, ok := m.txs[actor]
	return ok && t.open
}

// OpenTxs lists the open transaction ids in ascending order.
func (m *Model) OpenTxs() []int {
	var ids []int
	for id, t := range m.txs {
		if t.open {
			ids = append(ids, id)
		}
	}
	sort.Ints(ids)
	return ids
}

// LevelOf returns the level of a known transaction (RC for autocommit).
func (m *Model) LevelOf(actor int) Level {
	if t, ok := m.txs[actor]; ok {
		return t.level
	}
	return RC
}

// Write applies Set/SetReader/Create-Close (tomb=false) or Delete (tomb=true).
func (m *Model) Write(actor int, key, val string, tomb bool) ErrClass {
	if !tomb && key == "" {
		return EmptyKey
	}
	if !m.IsOpen(actor) {
		return TxNotFound
	}
	now := m.tick()
	v := ver{val: val, tomb: tomb, tw: now, tc: now}
	if actor == Autocommit {
		m.committed[key] = append(m.committed[key], v)
		return OK
	}
	m.txs[actor].own[key] = v
	return OK
}

// Expect is the set of acceptable results of a read.
type Expect struct {
	Err ErrClass // when Vals is empty
	// Vals: acceptable outcomes; an entry with Missing=true means ErrNotFound.
	Vals []Outcome
}

// Outcome is one acceptable read result.
type Outcome struct {
	Missing bool
	Val     string
}

func outcome(v ver, ok bool) Outcome {
	if !ok || v.tomb {
		return Outcome{Missing: true}
	}
	return Outcome{Val: v.val}
}

func (m *Model) latestCommitted(key string) (ver, bool) {
	vs := m.committed[key]
	if len(vs) == 0 {
		return ver{}, false
	}
	return vs[len(vs)-1], true
}

func (m *Model) committedBefore(key string, t int) (ver, bool) {
	vs := m.committed[key]
	for i := len(vs) - 1; i >= 0; i-- {
		if vs[i].tc < t {
			return vs[i], true
		}
	}
	return ver{}, false
}

// Get returns the acceptable results of reading key as actor.
func (m *Model) Get(actor int, key string) Expect {
	if !m.IsOpen(actor) {
		return Expect{Err: TxNotFound}
	}
	lvl := m.LevelOf(actor)
	var own ver
	var hasOwn bool
	if actor != Autocommit {
		own, hasOwn = m.txs[actor].own[key]
	}
	switch lvl {
	case RC:
		c, okc := m.latestCommitted(key)
		if hasOwn && (!okc || own.tw > c.tc) {
			return Expect{Vals: []Outcome{outcome(own, true)}}
		}
		return Expect{Vals: []Outcome{outcome(c, okc)}}
	case RR, SER:
		if hasOwn {
			return Expect{Vals: []Outcome{outcome(own, true)}}
		}
		c, okc := m.committedBefore(key, m.txs[actor].tBegin)
		return Expect{Vals: []Outcome{outcome(c, okc)}}
	default: // RU
		// Candidates: the latest committed value and every open transaction's
		// last write. The statement ("most recent write by anyone") does not
		// settle whether a committed value is dated by its write or by its
		// commit, so both datings are accepted.
		pick := func(byCommit bool) Outcome {
			best, okb := m.latestCommitted(key)
			bt := best.tw
			if byCommit {
				bt = best.tc
			}
			for _, id := range m.OpenTxs() {
				o, ok := m.txs[id].own[key]
				if !ok {
					continue
				}
				if !okb || o.tw > bt {
					best, okb, bt = o, true, o.tw
				}
			}
			return outcome(best, okb)
		}
		a, b := pick(false), pick(true)
		if a == b {
			return Expect{Vals: []Outcome{a}}
		}
		return Expect{Vals: []Outcome{a, b}}
	}
}

// Keys returns the universe of keys ever written.
func (m *Model) Keys() []string {
	set := map[string]struct{}{}
	for k := range m.committed {
		set[k] = struct{}{}
	}
	for _, t := range m.txs {
		for k := range t.own {
			set[k] = struct{}{}
		}
	}
	ks := make([]string, 0, len(set))
	for k := range set {
		ks = append(ks, k)
	}
	sort.Strings(ks)
	return ks
}

// KeysExpect describes the acceptable GetKeys results: Must are keys that
// must be listed, May are keys that may or may not be listed (RU ambiguity).
type KeysExpect struct {
	Err  ErrClass
	Must []string
	May  []string
}

// GetKeys returns the acceptable key lists for actor.
func (m *Model) GetKeys(actor int) KeysExpect {
	if !m.IsOpen(actor) {
		return KeysExpect{Err: TxNotFound}
	}
	var ke KeysExpect
	for _, k := range m.Keys() {
		e := m.Get(actor, k)
		present, absent := false, false
		for _, o := range e.Vals {
			if o.Missing {
				absent = true
			} else {
				present = true
			}
		}
		switch {
		case present && !absent:
			ke.Must = append(ke.Must, k)
		case present && absent:
			ke.May = append(ke.May, k)
		}
	}
	return ke
}

// Commit commits transaction id.
func (m *Model) Commit(id int) ErrClass {
	t, ok := m.txs[id]
	if !ok || !t.open {
		return TxNotFound
	}
	t.open = false
	if t.level == RR || t.level == SER {
		for k := range t.own {
			if c, ok := m.latestCommitted(k); ok && c.tc > t.tBegin {
				t.own = map[string]ver{}
				m.tick()
				return TxSerial
			}
		}
	}
	now := m.tick()
	for k, v := range t.own {
		v.tc = now
		m.committed[k] = append(m.committed[k], v)
	}
	t.own = map[string]ver{}
	return OK
}

// Rollback rolls transaction id back; always succeeds.
func (m *Model) Rollback(id int) ErrClass {
	t, ok := m.txs[id]
	if ok && t.open {
		t.open = false
		t.own = map[string]ver{}
	}
	m.tick()
	return OK
}

// Reopen models Close+Open: open transactions are gone.
func (m *Model) Reopen() {
	for _, t := range m.txs {
		t.open = false
		t.own = map[string]ver{}
	}
	m.tick()
}

// WouldConflict tells whether committing id now would fail (for evidence).
func (m *Model) WouldConflict(id int) bool {
	t, ok := m.txs[id]
	if !ok || !t.open || (t.level != RR && t.level != SER) {
		return false
	}
	for k := range t.own {
		if c, ok := m.latestCommitted(k); ok && c.tc > t.tBegin {
			return true
		}
	}
	return false
}

// WriteCount returns the number of keys written by an open transaction.
func (m *Model) WriteCount(id int) int {
	if t, ok := m.txs[id]; ok {
		return len(t.own)
	}
	return 0
}

// Versions returns the number of committed versions of key.
func (m *Model) Versions(key string) int { return len(m.committed[key]) }

// Clone returns a deep copy.
func (m *Model) Clone() *Model {
	n := &Model{t: m.t, committed: make(map[string][]ver, len(m.committed)), txs: make(map[int]*tx, len(m.txs))}
	for k, v := range m.committed {
		n.committed[k] = append([]ver(nil), v...)
	}
	for id, t := range m.txs {
		nt := &tx{level: t.level, tBegin: t.tBegin, open: t.open, own: make(map[string]ver, len(t.own))}
		for k, v := range t.own {
			nt.own[k] = v
		}
		n.txs[id] = nt
	}
	return n
}

// Canon returns a canonical rendering of everything that can influence a later
// result: for every key the latest committed version and, for snapshot readers,
// the history; every open transaction with its writes; relative order only.
func (m *Model) Canon() string {
	// collect all time stamps in use and rank them, so that equal shapes reached
	// by different numbers of steps compare equal
	stamps := map[int]struct{}{}
	for _, vs := range m.committed {
		for _, v := range vs {
			stamps[v.tw] = struct{}{}
			stamps[v.tc] = struct{}{}
		}
	}
	for _, t := range m.txs {
		if !t.open {
			continue
		}
		stamps[t.tBegin] = struct{}{}
		for _, v := range t.own {
			stamps[v.tw] = struct{}{}
		}
	}
	order := make([]int, 0, len(stamps))
	for s := range stamps {
		order = append(order, s)
	}
	sort.Ints(order)
	rank := make(map[int]int, len(order))
	for i, s := range order {
		rank[s] = i
	}
	var b []byte
	app := func(s string) { b = append(b, s...); b = append(b, 0) }
	num := func(i int) { b = append(b, byte(i), byte(i>>8), 1) }
	// is any snapshot transaction open? otherwise only the latest committed version matters
	oldestSnap := -1
	for _, t := range m.txs {
		if t.open && (t.level == RR || t.level == SER) && (oldestSnap < 0 || t.tBegin < oldestSnap) {
			oldestSnap = t.tBegin
		}
	}
	for _, k := range m.Keys() {
		app("K" + k)
		vs := m.committed[k]
		for i, v := range vs {
			keep := i == len(vs)-1
			if !keep && oldestSnap >= 0 {
				// versions that some snapshot may still read or conflict-check against
				keep = i+1 < len(vs) && vs[i+1].tc > oldestSnap || v.tc > oldestSnap
			}
			if !keep {
				continue
			}
			if v.tomb {
				app("T")
			} else {
				app("V" + v.val)
			}
			num(rank[v.tw])
			num(rank[v.tc])
		}
	}
	for _, id := range m.OpenTxs() {
		t := m.txs[id]
		app("X")
		num(id)
		num(int(t.level))
		num(rank[t.tBegin])
		ks := make([]string, 0, len(t.own))
		for k := range t.own {
			ks = append(ks, k)
		}
		sort.Strings(ks)
		for _, k := range ks {
			v := t.own[k]
			app(k)
			if v.tomb {
				app("T")
			} else {
				app("V" + v.val)
			}
			num(rank[v.tw])
		}
	}
	// ended transactions matter only as "known and closed"
	var ended []int
	for id, t := range m.txs {
		if !t.open {
			ended = append(ended, id)
		}
	}
	sort.Ints(ended)
	for _, id := range ended {
		app("E")
		num(id)
	}
	return string(b)
}
