package props

import (
	"fmt"
	"path/filepath"
	"strings"
	"sync"
	"sync/atomic"
	"time"

	"github.com/glebziz/fs_db"
	"github.com/glebziz/fs_db/pkg/verif"

	"verifharness/internal/conc"
	"verifharness/internal/dbx"
	"verifharness/internal/rt"
	"verifharness/internal/seqrun"
)

// c06Groups: a multi-key read must be one atomic step with respect to multi-key commits.
//
// One writer alternately commits "set all keys of group A, delete all keys of group B" and
// the inverse through RC/RU/RR/SER transactions, so at every instant exactly one of the two
// groups is completely present and the other completely absent. Readers call GetKeys
// (autocommit, inside a long-lived ReadCommitted transaction, inside fresh ReadCommitted
// transactions) and every result must show exactly one complete group and all padding keys.
// The padding keys are written by concurrent clients into storage directories limited to 100
// entries, so directory rotation happens under concurrency (a dead-lock there is caught by
// the watchdog). The cleaner is parked at its first hook for the duration of the read phase:
// this only delays a background goroutine and keeps the known GetKeys/cleaner window (K2)
// out of this role.
func c06Groups(tier string, seed int64, idx int, scratch string) rt.CaseResult {
	var c rt.CaseResult
	rt.SetWatchdogLimit(25 * time.Second)
	rng := seqrun.Rng(seed, "C06g", idx)
	pads := []int{0, 40, 260, 420}[idx%4]
	n := 2 + rng.Intn(7)
	level := idx / 4 % 4
	env, err := dbx.Open(dbx.Options{Mode: dbx.Inline, Dir: filepath.Join(scratch, "db"), MaxDirCount: 100, MaxDirExplicit: true,
		Roots: 1 + (idx/4)%3, GCPeriod: time.Hour, NumWorkers: 2, SendDuration: 1})
	if err != nil {
		c.Violate("open-failed", err.Error(), nil)
		return c
	}
	release := make(chan struct{})
	var parked int64
	released := false
	unpark := func() {
		if !released {
			released = true
			close(release)
		}
	}
	defer func() { unpark(); conc.Uninstall(); env.Close() }()
	replay := map[string]any{"seed": seed, "case": idx, "padding_keys": pads, "group_size": n, "writer_level": level}

	// padding: concurrent clients, directory rotation under concurrency
	var wg sync.WaitGroup
	var padErr atomic.Value
	for w := 0; w < 4; w++ {
		wg.Add(1)
		go func(w int) {
			defer wg.Done()
			for i := w; i < pads; i += 4 {
				if err := env.DB.Set(ctxBg, fmt.Sprintf("pad%03d", i), []byte{byte(i)}); err != nil {
					padErr.Store(err)
				}
				rt.Beat()
			}
		}(w)
	}
	// a fifth client writes and deletes keys of its own and runs the collector, so that
	// directories are re-activated (files removed) while others fill up and are replaced
	if pads > 0 {
		wg.Add(1)
		go func() {
			defer wg.Done()
			for i := 0; i < pads/2; i++ {
				k := fmt.Sprintf("churn%03d", i)
				if err := env.DB.Set(ctxBg, k, []byte{1}); err != nil {
					padErr.Store(err)
				}
				if err := env.DB.Delete(ctxBg, k); err != nil {
					padErr.Store(err)
				}
				if i%16 == 15 {
					if err := env.Collect(); err != nil {
						padErr.Store(err)
					}
				}
			}
		}()
	}
	wg.Wait()
	if e := padErr.Load(); e != nil {
		c.Violate("unexpected-error op=set", fmt.Sprintf("a concurrent Set/Delete/collector call of the set-up phase failed: %v", e), replay)
		return c
	}
	// from here on the cleaner is parked at its first hook (see above)
	if err := env.Drain(); err != nil {
		c.Violate("drain-failed", err.Error(), replay)
		return c
	}
	verif.SetHandler(func(point, id string) {
		if point == "cleaner.deletefile.begin" {
			atomic.AddInt64(&parked, 1)
			select {
			case <-release:
			case <-time.After(20 * time.Second):
			}
		}
	})
	group := func(g string) []string {
		var ks []string
		for i := 0; i < n; i++ {
			ks = append(ks, fmt.Sprintf("grp%s%d", g, i))
		}
		return ks
	}
	ga, gb := group("A"), group("B")
	flip := func(present, absent []string, r int) error {
		tx, err := env.DB.Begin(ctxBg, verif.IsoLevel(level))
		if err != nil {
			return err
		}
		for i := range present {
			// interleave sets and deletes inside the transaction
			if err := tx.Set(ctxBg, present[i], []byte(fmt.Sprintf("r%d", r))); err != nil {
				return err
			}
			if err := tx.Delete(ctxBg, absent[i]); err != nil && seqrun.Class(err) != "ErrNotFound" {
				return err
			}
		}
		return tx.Commit(ctxBg)
	}
	if err := flip(ga, gb, 0); err != nil {
		c.Violate("unexpected-error op=commit", "initial commit failed: "+err.Error(), replay)
		return c
	}
	rounds := tierN(tier, 120, 400)
	var stop int32
	var commits, overl int64
	var vmu sync.Mutex
	judge := func(kind string, keys []string, err error, sawCommit bool) {
		vmu.Lock()
		defer vmu.Unlock()
		c.Evals++
		if sawCommit {
			overl++
		}
		if len(c.Violations) > 0 {
			return
		}
		if err != nil {
			c.Violate("unexpected-error op=getkeys", fmt.Sprintf("%s GetKeys failed: %v", kind, err), replay)
			return
		}
		var a, b, p []string
		for _, k := range keys {
			switch {
			case strings.HasPrefix(k, "grpA"):
				a = append(a, k)
			case strings.HasPrefix(k, "grpB"):
				b = append(b, k)
			case strings.HasPrefix(k, "pad"):
				p = append(p, k)
			}
		}
		if len(p) != pads {
			c.Violate("getkeys-lost-stable-keys reader="+kind, fmt.Sprintf("%s GetKeys returned %d of the %d padding keys, which exist throughout", kind, len(p), pads), replay)
			return
		}
		if !((len(a) == n && len(b) == 0) || (len(a) == 0 && len(b) == n)) {
			c.Violate("torn-multi-key-read reader="+kind, fmt.Sprintf("%s GetKeys returned %v and %v: every commit sets one whole group (%d keys) and deletes the other, so a state with parts of a group never existed", kind, a, b, n), replay)
		}
	}
	var rwg sync.WaitGroup
	reader := func(kind string) {
		defer rwg.Done()
		var long fs_db.Tx
		if kind == "rc-long" {
			long, _ = env.DB.Begin(ctxBg, fs_db.IsoLevelReadCommitted)
			defer long.Rollback(ctxBg)
		}
		for atomic.LoadInt32(&stop) == 0 {
			rt.Beat()
			before := atomic.LoadInt64(&commits)
			var keys []string
			var err error
			switch kind {
			case "auto":
				keys, err = env.DB.GetKeys(ctxBg)
			case "rc-long":
				keys, err = long.GetKeys(ctxBg)
			default:
				var tx fs_db.Tx
				tx, err = env.DB.Begin(ctxBg, fs_db.IsoLevelReadCommitted)
				if err == nil {
					keys, err = tx.GetKeys(ctxBg)
					tx.Rollback(ctxBg)
				}
			}
			// a Commit returned while this read was running
			during := atomic.LoadInt64(&commits) != before
			judge(kind, keys, err, during)
		}
	}
	for _, k := range []string{"auto", "rc-long", "rc-fresh"} {
		rwg.Add(1)
		go reader(k)
	}
	for r := 1; r <= rounds; r++ {
		rt.Beat()
		var err error
		if r%2 == 1 {
			err = flip(gb, ga, r)
		} else {
			err = flip(ga, gb, r)
		}
		atomic.AddInt64(&commits, 1)
		if err != nil {
			vmu.Lock()
			c.Violate("unexpected-error op=commit", fmt.Sprintf("commit %d of the only writer failed: %v", r, err), replay)
			vmu.Unlock()
			break
		}
		vmu.Lock()
		bad := len(c.Violations) > 0
		vmu.Unlock()
		if bad {
			break
		}
	}
	atomic.StoreInt32(&stop, 1)
	rwg.Wait()
	unpark()
	c.Count("groups_commits", atomic.LoadInt64(&commits))
	c.Count("groups_getkeys_overlapping_a_commit", overl)
	c.Count("groups_cleaner_jobs_parked", atomic.LoadInt64(&parked))
	if overl > 0 {
		c.AddDistinct(fmt.Sprintf("groups:pads=%d/level=%d/overlap", pads, level))
	}
	c.Observe("group-read configurations", fmt.Sprintf("pads=%d group=%d writer-level=%d", pads, n, level))
	if idx == 0 {
		c.Sample = map[string]any{"role": "groups", "commits": commits, "getkeys_calls": c.Evals, "overlapping": overl}
	}
	return c
}
