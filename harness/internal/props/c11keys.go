package props

import (
	"bytes"
	"context"
	"fmt"
	"io"
	"path/filepath"
	"slices"
	"strings"
	"time"

	"github.com/glebziz/fs_db"
	"github.com/glebziz/fs_db/pkg/external"
	"github.com/glebziz/fs_db/pkg/verif"

	"verifharness/internal/dbx"
	"verifharness/internal/rt"
	"verifharness/internal/seqrun"
)

func init() {
	p := Registry["C11"]
	p.Roles["keyshapes"] = Role{N: func(t string) int { return tierN(t, 4, 16) }, Case: c11KeyShapes}
	p.Rule += " Role keyshapes: one call script (Get and GetReader of a key never written, Delete of it, Set, Get, GetKeys, then inside a transaction of each level Get, Delete, Get, Set, Get and Commit, then Delete and the Get of the deleted key, a second Commit; a Rollback and a Commit first attempted with a context that is already done and then repeated with a live one: afterwards the handle is finished and the data rolled back / committed for both clients) run with the same key through the inline client and through the gRPC client against the real server, call by call comparison of value and sentinel class, over a grid of valid UTF-8 keys: rune widths 1-4 bytes after an ASCII prefix of 0-3 bytes, total lengths around 16, 32, 64, 128, 256, 512, 1024, 4096, 65536 bytes (whatever byte offset a layer may cut, quote or pad a key at, some key has a rune straddling it). Other handles to the same server are opened, used and closed meanwhile. Half of the cases open the gRPC handle with a context that is done as soon as Open has returned."
}

// c11KeyGrid returns valid UTF-8 keys whose runes straddle every small byte offset.
func c11KeyGrid(idx, cases int) []string {
	var keys []string
	n := 0
	for _, total := range []int{15, 31, 33, 63, 64, 65, 66, 127, 129, 255, 257, 511, 1023, 1026, 4097, 65537} {
		for _, r := range []string{"a", "é", "€", "😀"} {
			for pad := 0; pad < 4; pad++ {
				n++
				if n%cases != idx%cases {
					continue
				}
				k := strings.Repeat("k", pad)
				for len(k) < total {
					k += r
				}
				keys = append(keys, k)
			}
		}
	}
	return keys
}

func c11KeyShapes(tier string, seed int64, idx int, scratch string) rt.CaseResult {
	var c rt.CaseResult
	cases := tierN(tier, 4, 16)
	doneCtx := idx%2 == 1
	g, err := dbx.Open(dbx.Options{Mode: dbx.Grpc, Dir: filepath.Join(scratch, "g"), OpenCtxDone: doneCtx})
	if err != nil {
		c.Violate("open-failed", err.Error(), nil)
		return c
	}
	defer g.Close()
	in, err := dbx.Open(dbx.Options{Mode: dbx.Inline, Dir: filepath.Join(scratch, "i")})
	if err != nil {
		c.Violate("open-failed", err.Error(), nil)
		return c
	}
	defer in.Close()
	if doneCtx {
		time.Sleep(20 * time.Millisecond) // whatever hangs on the opening context has had its chance
	}
	// a second handle to the same server is opened, used once and closed while the first stays in
	// use (and one more is opened and closed half-way): handles are independent of one another
	second := func() {
		if h, err := external.Open(ctxBg, g.Addr); err == nil {
			h.Get(ctxBg, "whatever")
			if cl, ok := h.(interface{ Close() error }); ok {
				cl.Close()
			}
		}
	}
	second()
	type res struct {
		op  string
		cls string
		val []byte
	}
	script := func(db fs_db.DB, key string, level int, tag string) (out []res) {
		add := func(op string, val []byte, err error) {
			out = append(out, res{op: op, cls: string(seqrun.Class(err)), val: val})
		}
		rd := func(name string, s interface {
			GetReader(context.Context, string) (io.ReadCloser, error)
		}) {
			rc, err := s.GetReader(ctxBg, key)
			var b []byte
			if err == nil {
				b, err = io.ReadAll(rc)
				rc.Close()
			}
			add(name, b, err)
		}
		b, err := db.Get(ctxBg, key)
		add("get-never-written", b, err)
		rd("getreader-never-written", db)
		add("delete-never-written", nil, db.Delete(ctxBg, key))
		v1 := seqrun.Content(tag+"-1", 9)
		add("set", nil, db.Set(ctxBg, key, v1))
		b, err = db.Get(ctxBg, key)
		add("get", b, err)
		keys, err := db.GetKeys(ctxBg)
		add("getkeys", []byte(fmt.Sprint(slices.Contains(keys, key))), err)
		tx, err := db.Begin(ctxBg, verif.IsoLevel(level))
		add("begin", nil, err)
		if err == nil {
			b, err = tx.Get(ctxBg, key)
			add("tx-get", b, err)
			add("tx-delete", nil, tx.Delete(ctxBg, key))
			b, err = tx.Get(ctxBg, key)
			add("tx-get-deleted", b, err)
			rd("tx-getreader-deleted", tx)
			b, err = tx.Get(ctxBg, key+"-other")
			add("tx-get-never-written", b, err)
			v2 := seqrun.Content(tag+"-2", 2050)
			add("tx-set", nil, tx.Set(ctxBg, key, v2))
			b, err = tx.Get(ctxBg, key)
			add("tx-get-own", b, err)
			add("commit", nil, tx.Commit(ctxBg))
			add("commit-again", nil, tx.Commit(ctxBg))
			b, err = tx.Get(ctxBg, key)
			add("tx-get-after-commit", b, err)
		}
		// ends first attempted with a context that is already done (what the call itself returns
		// then differs by design: the inline client does not look at the context, the gRPC client
		// fails before it reaches the server - not compared), then repeated with a live one
		dead, cancel := context.WithCancel(ctxBg)
		cancel()
		if t2, err := db.Begin(ctxBg, verif.IsoLevel(level)); err == nil {
			add("tx2-set", nil, t2.Set(ctxBg, key+"-rb", v1))
			t2.Rollback(dead)
			add("tx2-rollback-retried", nil, t2.Rollback(ctxBg))
			b, err = t2.Get(ctxBg, key+"-rb")
			add("tx2-get-after-rollback", b, err)
			add("tx2-set-after-rollback", nil, t2.Set(ctxBg, key+"-rb", v1))
			b, err = db.Get(ctxBg, key+"-rb")
			add("get-rolled-back", b, err)
		}
		if t3, err := db.Begin(ctxBg, verif.IsoLevel(level)); err == nil {
			add("tx3-set", nil, t3.Set(ctxBg, key+"-cm", v1))
			t3.Commit(dead)
			t3.Commit(ctxBg) // ErrTxNotFound inline (the first attempt went through), nil over gRPC
			b, err = t3.Get(ctxBg, key+"-cm")
			add("tx3-get-after-commit", b, err)
			b, err = db.Get(ctxBg, key+"-cm")
			add("get-committed-on-retry", b, err)
		}
		// a source that has been partly consumed: the value is the rest of the stream
		pr := bytes.NewReader(append([]byte("HEADER-16-BYTES!"), v1...))
		pr.Seek(16, io.SeekStart)
		add("setreader-positioned-source", nil, db.SetReader(ctxBg, key+"-pos", pr))
		b, err = db.Get(ctxBg, key+"-pos")
		add("get-positioned-source", b, err)
		// the snapshot of a transaction is taken when Begin returns, not at its first operation
		if t4, err := db.Begin(ctxBg, verif.IsoLevel(level)); err == nil {
			add("set-after-begin-of-tx4", nil, db.Set(ctxBg, key+"-pos", seqrun.Content(tag+"-after-begin", 11)))
			b, err = t4.Get(ctxBg, key+"-pos")
			add("tx4-first-operation-get", b, err)
			ks, err := t4.GetKeys(ctxBg)
			add("tx4-getkeys", []byte(fmt.Sprint(len(ks))), err)
			add("tx4-rollback", nil, t4.Rollback(ctxBg))
		}
		b, err = db.Get(ctxBg, key)
		add("get-committed", b, err)
		add("delete", nil, db.Delete(ctxBg, key))
		b, err = db.Get(ctxBg, key)
		add("get-deleted", b, err)
		rd("getreader-deleted", db)
		add("set-empty-key", nil, db.Set(ctxBg, "", v1))
		return out
	}
	for n, key := range c11KeyGrid(idx, cases) {
		rt.Beat()
		if n == 3 {
			second()
		}
		level := (n + idx/2) % 4
		tag := fmt.Sprintf("ks%d-%d", idx, n)
		ri, rg := script(in.DB, key, level, tag), script(g.DB, key, level, tag)
		plan := map[string]any{"seed": seed, "case": idx, "key_bytes": len(key), "key_start": fmt.Sprintf("%.24q", key), "level": level, "open_context_done": doneCtx}
		for i := range ri {
			c.Evals++
			if i >= len(rg) || ri[i].cls != rg[i].cls || !bytes.Equal(ri[i].val, rg[i].val) {
				var got res
				if i < len(rg) {
					got = rg[i]
				}
				plan["inline"], plan["grpc"] = fmt.Sprintf("%s %s", ri[i].cls, seqrun.Describe(ri[i].val)), fmt.Sprintf("%s %s", got.cls, seqrun.Describe(got.val))
				c.Violate(fmt.Sprintf("clients-differ op=%s inline=%s grpc=%s", ri[i].op, ri[i].cls, got.cls), fmt.Sprintf("%s with a %d-byte key (%.24q...), level %d: the inline client returns %s %s, the gRPC client %s %s", ri[i].op, len(key), key, level, ri[i].cls, seqrun.Describe(ri[i].val), got.cls, seqrun.Describe(got.val)), plan)
				return c
			}
			c.AddDistinct(fmt.Sprintf("keyshape:%s/%s/len=%s", ri[i].op, ri[i].cls, lenClass(len(key))))
		}
		c.Count("keys_compared", 1)
	}
	if idx%4 < 2 {
		// key listings longer than any page, batch or log limit one might think of (256, 1000, 1024):
		// both clients list the same keys, outside and inside a transaction
		n := []int{300, 1100}[idx%2]
		for i := 0; i < n; i++ {
			if i%128 == 0 {
				rt.Beat()
			}
			k := fmt.Sprintf("many-%05d", i)
			if e1, e2 := in.DB.Set(ctxBg, k, []byte("v")), g.DB.Set(ctxBg, k, []byte("v")); e1 != nil || e2 != nil {
				c.Violate("write-failed role=keyshapes", fmt.Sprint(e1, e2), nil)
				return c
			}
		}
		list := func(db fs_db.DB, inTx bool) (string, int) {
			var st fs_db.Store = db
			if inTx {
				tx, err := db.Begin(ctxBg)
				if err != nil {
					return "begin: " + err.Error(), -1
				}
				defer tx.Rollback(ctxBg)
				st = tx
			}
			ks, err := st.GetKeys(ctxBg)
			slices.Sort(ks)
			return fmt.Sprint(seqrun.Class(err), " ", dbx.Sum([]byte(strings.Join(ks, "\x00")))), len(ks)
		}
		for _, inTx := range []bool{false, true} {
			li, ni := list(in.DB, inTx)
			lg, ng := list(g.DB, inTx)
			c.Evals++
			if li != lg {
				c.Violate("clients-differ op=getkeys many-keys", fmt.Sprintf("GetKeys (inside a transaction: %v) with %d more keys in the database: the inline client lists %d keys, the gRPC client %d", inTx, n, ni, ng), map[string]any{"seed": seed, "case": idx, "keys_added": n, "in_transaction": inTx})
				return c
			}
		}
		c.AddDistinct(fmt.Sprintf("keyshape:getkeys-many/%d", n))
	}
	if idx == 0 {
		c.Sample = map[string]any{"keys_in_this_case": len(c11KeyGrid(idx, cases)), "first_key_lengths": func() (l []int) {
			for _, k := range c11KeyGrid(idx, cases) {
				l = append(l, len(k))
			}
			return l[:min(8, len(l))]
		}()}
	}
	return c
}
