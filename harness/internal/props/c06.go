package props

import (
	"fmt"
	"path/filepath"
	"sort"
	"strings"
	"time"

	"verifharness/internal/conc"
	"verifharness/internal/dbx"
	"verifharness/internal/lin"
	"verifharness/internal/refmodel"
	"verifharness/internal/rt"
	"verifharness/internal/seqrun"
)

func init() {
	register(&Prop{
		ID: "C06", Level: "exploration",
		Rule:        "recorded-history checking: seeded concurrent programs (3-4 clients x 8-15 operations on 1-3 keys; Set/Create/Delete/Get/GetKeys, RU/RC transactions, a collector actor, scheduled collector every few ms, deferred worker-pool path) run on the real inline database with seeded perturbation at the hook points; every call is recorded at the client boundary (call/return stamps from one monotonic clock) and the history is checked with porcupine v1.3.0 against (i) a per-key register model (autocommit programs; GetKeys projected per key) or (ii) the whole-store reference model with GetKeys as an atomic multi-key read (RU/RC programs); plus sound cheap monitors on every history (only nil/ErrNotFound result classes, no foreign/partial/mixed content, final sequential reads after collection, no panic, watchdog + goroutine-dump classification for dead-locks); plus the named windows steered through hook gates; plus the group role: one writer flips two key groups with multi-key commits (all four levels) while autocommit/ReadCommitted GetKeys readers run; every result must show exactly one complete group and all padding keys (padding written concurrently into directories limited to 100 entries, so directory rotation happens under concurrency). evaluations = operations recorded; distinct_nontrivial = distinct overlapping operation-kind pairs observed + distinct (window, outcome) pairs",
		Assumptions: []string{"porcupine v1.3.0", "reference model / register model", "goroutine-dump classification of dead-locks (DESIGN 2.6)"},
		Roles: map[string]Role{
			"hist":   {N: func(t string) int { return tierN(t, 480, 30000) }, Case: c06Hist},
			"window": {N: func(t string) int { return tierN(t, 36, 1200) }, Case: c06Window},
			"groups": {N: func(t string) int { return tierN(t, 16, 320) }, Case: c06Groups},
		},
	})
}

// attributeSpurious marks reads that returned not-found although the lookup
// had found a version whose content the cleaner removed before the open
// (known finding: no reader pinning between version lookup and content open).
func attributeSpurious(ops []conc.Op, evs []conc.Event) (anomalous map[int]string) {
	anomalous = map[int]string{}
	deleted := map[string]int64{} // content id -> first cleaner event time
	var cleanerTimes []int64
	for _, e := range evs {
		if strings.HasPrefix(e.Point, "cleaner.deletefile.") {
			if _, ok := deleted[e.ID]; !ok {
				deleted[e.ID] = e.T
			}
			cleanerTimes = append(cleanerTimes, e.T)
		}
	}
	for i, o := range ops {
		switch {
		case (o.Kind == "get" || o.Kind == "getreader") && o.Class == string(refmodel.NotFound):
			for _, e := range evs {
				if e.G == o.G && e.Point == "store.get.lookup" && e.T >= o.Call && e.T <= o.Ret {
					if dt, ok := deleted[e.ID]; ok && dt <= o.Ret {
						anomalous[i] = "spurious-notfound op=get get.lookup<cleaner.delete<get.open"
					}
				}
			}
		case o.Kind == "getkeys" && o.Class == "ok":
			var snap int64 = -1
			for _, e := range evs {
				if e.G == o.G && e.Point == "store.getkeys.files" && e.T >= o.Call && e.T <= o.Ret {
					snap = e.T
				}
			}
			if snap >= 0 {
				for _, ct := range cleanerTimes {
					if ct >= o.Call && ct <= o.Ret {
						anomalous[i] = "spurious-missing-key op=getkeys getkeys.files<cleaner.delete<content-record lookup"
						break
					}
				}
			}
		}
	}
	return anomalous
}

// checkHistory applies all oracles to one recorded history.
func checkHistory(c *rt.CaseResult, ops []conc.Op, evs []conc.Event, p program, withTx bool, replay map[string]any) {
	replay["history"] = ops
	for i, o := range ops {
		if o.Kind == "collect" {
			if o.Class != "ok" {
				c.Violate("collector-error", "a collector pass returned an error: "+o.Err, replay)
				return
			}
			continue
		}
		if o.Open {
			continue
		}
		if o.Class != "ok" && !((o.Kind == "get" || o.Kind == "getreader") && o.Class == string(refmodel.NotFound)) {
			c.Violate(fmt.Sprintf("unexpected-error op=%s class=%s", o.Kind, o.Class), fmt.Sprintf("operation %d %s(%q) returned %s: %s", i, o.Kind, o.Key, o.Class, o.Err), replay)
			return
		}
	}
	if bad, why := valueIntegrity(ops); bad != nil {
		c.Violate("read-foreign-or-partial-value", fmt.Sprintf("Get(%q) returned %s: %s", bad.Key, seqrun.Describe([]byte(bad.Out)), why), replay)
		return
	}
	check := func(ops []conc.Op) string {
		// the watchdog guards the execution phase; the checker has its own time-out
		rt.SetWatchdogLimit(3 * time.Minute)
		rt.Beat()
		defer func() { rt.Beat(); rt.SetWatchdogLimit(25 * time.Second) }()
		if withTx {
			return lin.Check(lin.StoreModel, lin.StoreOps(ops), 60*time.Second)
		}
		return lin.Check(lin.RegisterModel, lin.RegisterOps(ops, p.Keys), 60*time.Second)
	}
	switch check(ops) {
	case "ok":
		c.Count("histories_linearizable", 1)
	case "unknown":
		c.Inconclusive = append(c.Inconclusive, "porcupine timed out on a history")
	case "illegal":
		an := attributeSpurious(ops, evs)
		if len(an) > 0 {
			// try the smallest explanation first: remove only the anomalous reads of one class
			classes := map[string]bool{}
			for _, s := range an {
				classes[s] = true
			}
			var order [][]string
			for cl := range classes {
				order = append(order, []string{cl})
			}
			sort.Slice(order, func(i, j int) bool { return order[i][0] < order[j][0] })
			if len(classes) > 1 {
				var all []string
				for cl := range classes {
					all = append(all, cl)
				}
				sort.Strings(all)
				order = append(order, all)
			}
			for _, set := range order {
				in := map[string]bool{}
				for _, cl := range set {
					in[cl] = true
				}
				var rest []conc.Op
				for i, o := range ops {
					if s, ok := an[i]; ok && in[s] {
						continue
					}
					rest = append(rest, o)
				}
				if check(rest) == "ok" {
					replay["anomalous_ops"] = an
					for _, cl := range set {
						c.Violate(cl, "history is not linearizable; it becomes linearizable when the reads that raced with the cleaner between version lookup and content lookup/open are removed", replay)
					}
					c.Count("histories_illegal_attributed_to_known_window", 1)
					return
				}
			}
		}
		kind := "register-model"
		if withTx {
			kind = "store-model"
		}
		c.Violate("non-linearizable "+kind, "porcupine found no linearization of the recorded history", replay)
	}
}

func c06Hist(tier string, seed int64, idx int, scratch string) rt.CaseResult {
	var c rt.CaseResult
	rt.SetWatchdogLimit(25 * time.Second)
	rng := seqrun.Rng(seed, "C06", idx)
	withTx := idx%2 == 1
	clients := 3
	opsPer := 8
	if tier == "thorough" {
		clients, opsPer = 3+rng.Intn(2), 10+rng.Intn(6)
	}
	keys := []string{"x", "y", "z"}[:1+rng.Intn(3)]
	p := genProgram(rng, fmt.Sprintf("h%d-", idx), clients, opsPer, keys, withTx, []int{0, 1}, idx%3 != 2)
	sd := time.Millisecond
	if idx%4 < 2 {
		sd = 1 // nanosecond: deferred path
	}
	env, err := dbx.Open(dbx.Options{Mode: dbx.Inline, Dir: filepath.Join(scratch, "db"), GCPeriod: time.Duration(2+rng.Intn(8)) * time.Millisecond, SendDuration: sd, NumWorkers: 1 + rng.Intn(3)})
	if err != nil {
		c.Violate("open-failed", err.Error(), nil)
		return c
	}
	tr := conc.NewTracer(true)
	if idx%5 != 0 {
		tr.Perturb(10+rng.Intn(40), 50+rng.Intn(450), uint64(seed)*7919+uint64(idx))
	}
	tr.Install()
	ops := execProgram(env, tr, p, nil)
	conc.Uninstall()
	evs := tr.Events()
	reopenDiff := reopenCheck(env, p.Keys)
	cerr := env.Close()
	c.Evals = int64(len(ops))
	for _, pr := range overlapPairs(ops) {
		c.AddDistinct("overlap:" + pr)
		c.Observe("overlapping operation-kind pairs", pr)
	}
	for pt, n := range tr.Counts() {
		c.Count("hook:"+pt, n)
	}
	replay := map[string]any{"seed": seed, "case": idx, "program": p, "with_tx": withTx}
	checkHistory(&c, ops, evs, p, withTx, replay)
	if reopenDiff != "" && len(c.Violations) == 0 {
		replay["history"] = ops
		c.Violate("state-changed-by-reopen-after-concurrent-run", reopenDiff, replay)
	}
	if cerr != nil {
		c.Violate("close-failed", cerr.Error(), replay)
	}
	if idx < 2 {
		var s []string
		for i, o := range ops {
			if i > 10 {
				break
			}
			s = append(s, fmt.Sprintf("c%d %s(%q) tx=%d -> %s [%d,%d]", o.Client, o.Kind, o.Key, o.Tx, o.Class, o.Call, o.Ret))
		}
		c.Sample = map[string]any{"history_head": s, "ops": len(ops), "hook_events": len(evs)}
	}
	return c
}

// reopenCheck reads every key and the key list, closes and reopens the database and reads
// again: after a quiescent point a restart must not change anything (an acknowledged write
// that is lost or resurrected by recovery shows up here).
func reopenCheck(env *dbx.Env, keys []string) string {
	read := func() map[string]string {
		out := map[string]string{}
		for _, k := range keys {
			b, err := env.DB.Get(ctxBg, k)
			if err != nil {
				out[k] = "<" + string(seqrun.Class(err)) + ">"
			} else {
				out[k] = string(b)
			}
		}
		ks, err := env.DB.GetKeys(ctxBg)
		out["\x00keys"] = fmt.Sprint(ks, err)
		return out
	}
	before := read()
	if err := env.Reopen(); err != nil {
		return "reopen failed: " + err.Error()
	}
	after := read()
	for k, v := range before {
		if after[k] != v {
			return fmt.Sprintf("after the concurrent run key %q reads %s; after Close and Open it reads %s", k, seqrun.Describe([]byte(v)), seqrun.Describe([]byte(after[k])))
		}
	}
	return ""
}

// c06Window steers the named windows.
func c06Window(tier string, seed int64, idx int, scratch string) rt.CaseResult {
	var c rt.CaseResult
	rt.SetWatchdogLimit(25 * time.Second)
	if idx%6 == 4 {
		return c06RotationWindow(seed, idx, scratch)
	}
	if idx%6 == 5 {
		return c06DoubleWindow(seed, idx, scratch)
	}
	idx = idx/6*4 + idx%6 // the four windows below keep their old numbering
	env, err := dbx.Open(dbx.Options{Mode: dbx.Inline, Dir: filepath.Join(scratch, "db")})
	if err != nil {
		c.Violate("open-failed", err.Error(), nil)
		return c
	}
	defer env.Close()
	tr := conc.NewTracer(true)
	tr.Install()
	defer conc.Uninstall()
	if idx%4 == 2 {
		return c06StoreWindow(seed, idx, env, tr)
	}
	wi := map[int]int{0: 0, 1: 1, 3: 2}[idx%4]
	window := []string{"get.lookup<overwrite+collect<get.open", "getkeys.files<overwrite+collect<content-record-lookup", "get.content-record<overwrite+collect<get.open"}[wi]
	tag := fmt.Sprintf("w%d-", idx)
	p := program{Keys: []string{"k", "other"}, Init: []progOp{{Kind: "set", Tx: -1, Key: "k", Tag: tag + "v0", Len: 30}, {Kind: "set", Tx: -1, Key: "other", Tag: tag + "o", Len: 10}}}
	reader := []progOp{{Kind: "get", Tx: -1, Key: "k"}}
	waitPoint := []string{"store.get.lookup", "store.getkeys.files", "store.get.cf"}[wi]
	if wi == 1 {
		reader = []progOp{{Kind: "getkeys", Tx: -1}}
	}
	writer := []progOp{{Kind: "sleep", Len: 2000}, {Kind: "set", Tx: -1, Key: "k", Tag: tag + "v1", Len: 30}, {Kind: "collect", Tx: -1}}
	p.Clients = [][]progOp{reader, writer}
	var gate *conc.Gate
	ops := execProgram(env, tr, p, func(client int, gid int64) {
		if client == 0 {
			gate = tr.AddGate(&conc.Gate{WaitPoint: waitPoint, WaitG: gid, SigPoint: "cleaner.deletefile.done", Timeout: 2 * time.Second})
		}
	})
	out := gate.Outcome()
	c.Evals = int64(len(ops))
	c.AddDistinct("window:" + window + "/" + out)
	c.Observe("window outcomes", window+" -> "+out)
	c.Count("window_attempts", 1)
	if out == "hit" {
		c.Count("window_hits", 1)
	}
	replay := map[string]any{"seed": seed, "case": idx, "window": window, "gate": out, "program": p}
	checkHistory(&c, ops, tr.Events(), p, false, replay)
	if idx < 2 {
		c.Sample = map[string]any{"window": window, "gate_outcome": out}
	}
	return c
}

// c06StoreWindow: writer A is parked right after drawing its sequence number until another
// writer of the same key has persisted its version. On a tree where the sequence is drawn
// inside the store's critical section the second writer cannot get there (gate times out:
// order not reachable); otherwise publication order and sequence order disagree.
func c06StoreWindow(seed int64, idx int, env *dbx.Env, tr *conc.Tracer) rt.CaseResult {
	var c rt.CaseResult
	window := "A.seq-drawn<B.persisted<A.persisted (same key)"
	tag := fmt.Sprintf("s%d-", idx)
	p := program{Keys: []string{"k"}, Init: []progOp{{Kind: "set", Tx: -1, Key: "k", Tag: tag + "v0", Len: 20}}}
	a := []progOp{{Kind: "set", Tx: -1, Key: "k", Tag: tag + "A", Len: 20}}
	b := []progOp{{Kind: "sleep", Len: 3000}, {Kind: "set", Tx: -1, Key: "k", Tag: tag + "B", Len: 20}}
	t := []progOp{{Kind: "begin", Tx: 0, Level: 1}, {Kind: "sleep", Len: 8000}, {Kind: "set", Tx: 0, Key: "k", Tag: tag + "C", Len: 20}, {Kind: "sleep", Len: 400000}, {Kind: "get", Tx: 0, Key: "k"}, {Kind: "get", Tx: -1, Key: "k"}, {Kind: "commit", Tx: 0}}
	p.Clients = [][]progOp{a, b, t}
	var gate *conc.Gate
	ops := execProgram(env, tr, p, func(client int, gid int64) {
		if client == 0 {
			gate = tr.AddGate(&conc.Gate{WaitPoint: "core.store.seq", WaitG: gid, SigPoint: "core.store.persisted", NotSigG: gid, Timeout: 100 * time.Millisecond})
		}
	})
	out := gate.Outcome()
	c.Evals = int64(len(ops))
	c.AddDistinct("window:" + window + "/" + out)
	c.Observe("window outcomes", window+" -> "+out)
	c.Count("window_attempts", 1)
	replay := map[string]any{"seed": seed, "case": idx, "window": window, "gate": out, "program": p}
	checkHistory(&c, ops, tr.Events(), p, true, replay)
	if d := reopenCheck(env, p.Keys); d != "" && len(c.Violations) == 0 {
		replay["history"] = ops
		c.Violate("state-changed-by-reopen-after-concurrent-run", d, replay)
	}
	return c
}

// c06RotationWindow: the only directory of the root is full. Writer A replaces it (removes it
// from the directory repository, then creates a new one); writer B has read the roots before
// the removal and takes its snapshot of the directories between A's removal and A's creation.
// On a tree where the directory selection is not atomic B finds no directory at all and its
// Set fails with ErrNoFreeSpace although there is room; where it is atomic B cannot get there
// (the gate times out: order not reachable).
func c06RotationWindow(seed int64, idx int, scratch string) rt.CaseResult {
	var c rt.CaseResult
	window := "A.full-directory-removed<B.directory-snapshot<A.new-directory-created"
	env, err := dbx.Open(dbx.Options{Mode: dbx.Inline, Dir: filepath.Join(scratch, "db"), MaxDirCount: 100, MaxDirExplicit: true})
	if err != nil {
		c.Violate("open-failed", err.Error(), nil)
		return c
	}
	defer env.Close()
	tr := conc.NewTracer(true)
	tr.Install()
	defer conc.Uninstall()
	tag := fmt.Sprintf("r%d-", idx)
	p := program{Keys: []string{"a", "b"}}
	for i := 0; i < 100; i++ { // exactly as many entries as one directory may hold
		p.Init = append(p.Init, progOp{Kind: "set", Tx: -1, Key: fmt.Sprintf("fill%03d", i), Tag: fmt.Sprintf("%sf%d", tag, i), Len: 3})
	}
	a := []progOp{{Kind: "sleep", Len: 20000}, {Kind: "set", Tx: -1, Key: "a", Tag: tag + "A", Len: 20}, {Kind: "get", Tx: -1, Key: "a"}}
	b := []progOp{{Kind: "set", Tx: -1, Key: "b", Tag: tag + "B", Len: 20}, {Kind: "get", Tx: -1, Key: "b"}}
	p.Clients = [][]progOp{a, b}
	var gA, gB *conc.Gate
	ops := execProgram(env, tr, p, func(client int, gid int64) {
		if client == 1 {
			gB = tr.AddGate(&conc.Gate{WaitPoint: "dir.get.roots", WaitG: gid, SigPoint: "dir.get.removed", NotSigG: gid, Timeout: 300 * time.Millisecond})
		} else {
			gA = tr.AddGate(&conc.Gate{WaitPoint: "dir.get.removed", WaitG: gid, SigPoint: "dir.get.snapshot", NotSigG: gid, Timeout: 300 * time.Millisecond})
		}
	})
	out := gB.Outcome() + "/" + gA.Outcome()
	c.Evals = int64(len(ops))
	c.AddDistinct("window:" + window + "/" + out)
	c.Observe("window outcomes", window+" -> B:"+gB.Outcome()+" A:"+gA.Outcome())
	c.Count("window_attempts", 1)
	replay := map[string]any{"seed": seed, "case": idx, "window": window, "gates": out}
	p.Init = nil // 100 filler writes: not part of the history that is checked
	var hist []conc.Op
	for _, o := range ops {
		if !strings.HasPrefix(o.Key, "fill") {
			hist = append(hist, o)
		}
	}
	checkHistory(&c, hist, tr.Events(), p, false, replay)
	return c
}

// c06DoubleWindow: the window get.lookup < overwrite+collect < get.open twice inside one Get: the
// version found by the second look-up is superseded and cleaned as well before it is opened. The
// key has a value throughout, so the Get must return one of the three values.
func c06DoubleWindow(seed int64, idx int, scratch string) rt.CaseResult {
	var c rt.CaseResult
	window := "get.lookup<overwrite+collect<get.lookup(again)<overwrite+collect<get.open"
	env, err := dbx.Open(dbx.Options{Mode: dbx.Inline, Dir: filepath.Join(scratch, "db")})
	if err != nil {
		c.Violate("open-failed", err.Error(), nil)
		return c
	}
	defer env.Close()
	tr := conc.NewTracer(true)
	tr.Install()
	defer conc.Uninstall()
	tag := fmt.Sprintf("d%d-", idx)
	ru := idx%12 == 11 // the reader is a ReadUncommitted transaction, the versions vanish through rollbacks
	p := program{Keys: []string{"k"}, Init: []progOp{{Kind: "set", Tx: -1, Key: "k", Tag: tag + "v0", Len: 30}}}
	reader := []progOp{{Kind: "get", Tx: -1, Key: "k"}}
	writer := []progOp{{Kind: "sleep", Len: 2000}, {Kind: "set", Tx: -1, Key: "k", Tag: tag + "v1", Len: 30}, {Kind: "collect", Tx: -1},
		{Kind: "sleep", Len: 6000}, {Kind: "set", Tx: -1, Key: "k", Tag: tag + "v2", Len: 30}, {Kind: "collect", Tx: -1}}
	if ru {
		p.Init = append(p.Init, progOp{Kind: "begin", Tx: 0, Level: 0},
			progOp{Kind: "begin", Tx: 1, Level: 1}, progOp{Kind: "set", Tx: 1, Key: "k", Tag: tag + "u1", Len: 30},
			progOp{Kind: "begin", Tx: 2, Level: 1}, progOp{Kind: "set", Tx: 2, Key: "k", Tag: tag + "u2", Len: 30})
		reader = []progOp{{Kind: "get", Tx: 0, Key: "k"}}
		writer = []progOp{{Kind: "sleep", Len: 2000}, {Kind: "rollback", Tx: 2}, {Kind: "sleep", Len: 6000}, {Kind: "rollback", Tx: 1}}
	}
	p.Clients = [][]progOp{reader, writer}
	var g1, g2 *conc.Gate
	ops := execProgram(env, tr, p, func(client int, gid int64) {
		if client == 0 {
			g1 = tr.AddGate(&conc.Gate{WaitPoint: "store.get.lookup", WaitG: gid, SigPoint: "cleaner.deletefile.done", Timeout: 2 * time.Second})
			g2 = tr.AddGate(&conc.Gate{WaitPoint: "store.get.lookup", WaitG: gid, Skip: 1, SigPoint: "cleaner.deletefile.done", SigSkip: 1, Timeout: 2 * time.Second})
		}
	})
	out := g1.Outcome() + "/" + g2.Outcome()
	c.Evals = int64(len(ops))
	c.AddDistinct(fmt.Sprintf("window:%s/ru=%v/%s", window, ru, out))
	c.Observe("window outcomes", fmt.Sprintf("%s (reader ReadUncommitted: %v) -> first %s, second %s", window, ru, g1.Outcome(), g2.Outcome()))
	c.Count("window_attempts", 1)
	if g1.Outcome() == "hit" && g2.Outcome() == "hit" {
		c.Count("window_hits", 1)
	}
	replay := map[string]any{"seed": seed, "case": idx, "window": window, "gates": out, "program": p}
	checkHistory(&c, ops, tr.Events(), p, ru, replay)
	return c
}
