package props

import (
	"errors"
	"fmt"
	"path/filepath"
	"strings"

	"github.com/glebziz/fs_db"
	"github.com/glebziz/fs_db/pkg/verif"

	"verifharness/internal/dbx"
	"verifharness/internal/refmodel"
	"verifharness/internal/rt"
	"verifharness/internal/seqrun"
)

func init() {
	p := Registry["C03"]
	p.Roles["bigcommitfault"] = Role{N: func(t string) int { return tierN(t, 4, 32) }, Case: c03BigCommitFault}
	p.Rule += " Role bigcommitfault: commits of 1001-3100 keys (new keys, overwrites and deletions) in which the k-th metadata write of the commit fails (k = 2, 1000, 1001, 1500, 2001, the last) or the second metadata-store transaction of the commit cannot be started: a Commit that returned an error has changed nothing - the key list and sampled values read by the autocommit caller, by a ReadUncommitted and by a RepeatableRead transaction begun afterwards, and again after a reopen, are those from before; one that returned nil is in effect completely."
}

func c03BigCommitFault(tier string, seed int64, idx int, scratch string) rt.CaseResult {
	var c rt.CaseResult
	rng := seqrun.Rng(seed, "C03big", idx)
	mode := dbx.Inline
	if idx%4 == 3 {
		mode = dbx.Grpc
	}
	env, err := dbx.Open(dbx.Options{Mode: mode, Dir: filepath.Join(scratch, "db")})
	if err != nil {
		c.Violate("open-failed", err.Error(), nil)
		return c
	}
	defer func() { env.Close() }()
	defer verif.SetOpFault(nil)
	n := []int{1001, 1500, 2100, 3100}[idx%4]
	kth := []int{2, 1000, 1001, 1500, 2001, n}[(idx+idx/4)%6]
	if kth > n {
		kth = n
	}
	secondTxn := idx%8 == 5
	plan := map[string]any{"seed": seed, "case": idx, "mode": modeName(mode), "keys_in_commit": n, "failing_metadata_write": kth, "second_store_transaction_refused": secondTxn}
	before := map[string]string{}
	for i := 0; i < n; i += 5 {
		k := fmt.Sprintf("g%05d", i)
		before[k] = "old-" + k
		if err := env.DB.Set(ctxBg, k, []byte(before[k])); err != nil {
			c.Violate("setup-write-failed", err.Error(), plan)
			return c
		}
	}
	tx, err := env.DB.Begin(ctxBg, verif.IsoLevel(idx%4))
	if err != nil {
		c.Violate("begin-failed", err.Error(), plan)
		return c
	}
	after := map[string]string{}
	for k, v := range before {
		after[k] = v
	}
	for i := 0; i < n; i++ {
		if i%256 == 0 {
			rt.Beat()
		}
		k := fmt.Sprintf("g%05d", i)
		if i%15 == 0 {
			err = tx.Delete(ctxBg, k)
			delete(after, k)
		} else {
			after[k] = fmt.Sprintf("new-%s-%d", k, rng.Intn(1000))
			err = tx.Set(ctxBg, k, []byte(after[k]))
		}
		if err != nil {
			c.Violate("write-in-transaction-failed", err.Error(), plan)
			return c
		}
	}
	sets, txns := 0, 0
	verif.SetOpFault(func(op, path string) error {
		switch {
		case op == "badger.txn":
			txns++
			if secondTxn && txns >= 2 {
				return errors.New("injected: the metadata store refuses another transaction")
			}
		case (op == "badger.txn.set" || op == "badger.set") && strings.HasPrefix(path, "file/"):
			sets++
			if !secondTxn && sets == kth {
				return errors.New("injected failure of a metadata write of the commit")
			}
		}
		return nil
	})
	cerr := tx.Commit(ctxBg)
	verif.SetOpFault(nil)
	tx.Rollback(ctxBg)
	plan["commit_result"], plan["metadata_writes_seen"], plan["store_transactions_seen"] = fmt.Sprint(cerr), sets, txns
	c.Evals++
	want := before
	if cerr == nil {
		want = after
	}
	look := func(st fs_db.Store, who, when string) bool {
		keys, kerr := st.GetKeys(ctxBg)
		c.Evals++
		if kerr != nil || len(keys) != len(want) {
			c.Violate(fmt.Sprintf("big-commit-partly-in-effect keys reader=%s %s", who, when), fmt.Sprintf("%s, reader %s: the Commit of %d keys returned %v; GetKeys lists %d keys (%v), %d are expected (%d before the commit, %d after a complete one)", when, who, n, cerr, len(keys), kerr, len(want), len(before), len(after)), plan)
			return false
		}
		for _, i := range []int{0, 1, 5, 999, 1000, 1001, n / 2, n - 2, n - 1, rng.Intn(n), rng.Intn(n), rng.Intn(n)} {
			if i >= n {
				continue
			}
			k := fmt.Sprintf("g%05d", i)
			b, gerr := st.Get(ctxBg, k)
			w, has := want[k]
			c.Evals++
			if has && (gerr != nil || string(b) != w) || !has && seqrun.Class(gerr) != refmodel.NotFound {
				c.Violate(fmt.Sprintf("big-commit-partly-in-effect value reader=%s %s", who, when), fmt.Sprintf("%s, reader %s: the Commit of %d keys returned %v; %s reads %s (%v), expected %q (has a value: %v)", when, who, n, cerr, k, seqrun.Describe(b), gerr, w, has), plan)
				return false
			}
		}
		return true
	}
	if !look(env.DB, "autocommit", "right after the Commit") {
		return c
	}
	for _, lv := range []int{0, 2} {
		var r fs_db.Tx
		r, err = env.DB.Begin(ctxBg, verif.IsoLevel(lv))
		if err != nil {
			c.Violate("begin-failed", err.Error(), plan)
			return c
		}
		ok := look(r, fmt.Sprintf("level-%d", lv), "right after the Commit")
		r.Rollback(ctxBg)
		if !ok {
			return c
		}
	}
	if err := env.Reopen(); err != nil {
		c.Violate("reopen-failed role=bigcommitfault", err.Error(), plan)
		return c
	}
	if !look(env.DB, "autocommit", "after a reopen") {
		return c
	}
	c.AddDistinct(fmt.Sprintf("bigcommitfault/%s/n=%d/k=%d/second-txn=%v/committed=%v", modeName(mode), n, kth, secondTxn, cerr == nil))
	c.Count("big_commits_that_failed", b2i(cerr != nil))
	if idx == 0 {
		c.Sample = plan
	}
	return c
}
