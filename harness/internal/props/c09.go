package props

import (
	"fmt"

	"verifharness/internal/dbx"
	"verifharness/internal/rt"
	"verifharness/internal/seqrun"
)

func init() {
	register(&Prop{
		ID: "C09", Level: "exploration",
		Rule:        "differential: a seeded base history H (several snapshot transactions of different ages, a just-begun transaction that has not read yet, RU/RC readers, overwrites, deletes, commits) is run once per collector position p in 0..|H| with a collector pass + worker-pool drain inserted before step p, once with two consecutive passes at a seeded position, and once with a pass before every step; in every variant the open transactions and the autocommit caller read every key and GetKeys after every step (probing order per variant: oldest first / youngest first / shuffled / shuffled subset with skipped rounds, since reads themselves touch the registry) and must equal the reference model, in which the collector does not exist; GetReader streams opened before a pass are read to the end after it. evaluations = reads compared; distinct_nontrivial = distinct (base history, position) variants in which the pass physically removed at least one content file",
		Assumptions: []string{"reference model refmodel (collector = no-op)"},
		Roles:       map[string]Role{"main": {N: func(t string) int { return tierN(t, 24, 1200) }, Case: c09Case}},
	})
}

func c09Case(tier string, seed int64, idx int, scratch string) rt.CaseResult {
	var c rt.CaseResult
	rng := seqrun.Rng(seed, "C09", idx)
	p := seqrun.Profile{
		Steps: tierN(tier, 34, 50), Keys: txKeys[:2+rng.Intn(2)], Lens: []int{12}, MaxOpen: 4, TxBias: 45,
		TagPrefix: fmt.Sprintf("h%d-", idx),
		W:         map[string]int{"begin": 14, "set": 34, "delete": 6, "commit": 10, "rollback": 3, "getreader_gc": 3, "get": 2},
	}
	base := seqrun.Generate(rng, p)
	gc := []seqrun.Step{{Op: "collect", Actor: -1}, {Op: "drain", Actor: -1}}
	variants := make([][]seqrun.Step, 0, len(base)+3)
	names := make([]string, 0, len(base)+3)
	for pos := 0; pos <= len(base); pos++ {
		v := append(append(append([]seqrun.Step(nil), base[:pos]...), gc...), base[pos:]...)
		variants = append(variants, v)
		names = append(names, fmt.Sprintf("p%d", pos))
	}
	pos := rng.Intn(len(base) + 1)
	variants = append(variants, append(append(append(append([]seqrun.Step(nil), base[:pos]...), gc...), gc...), base[pos:]...))
	names = append(names, fmt.Sprintf("twice@%d", pos))
	var every []seqrun.Step
	for _, s := range base {
		every = append(append(every, gc...), s)
	}
	variants = append(variants, append(every, gc...))
	names = append(names, "every")

	filesBefore := 0
	after := func(r *seqrun.Runner, i int, s seqrun.Step) *seqrun.Mismatch {
		// count physical removals: files on disk before a pass vs after its drain
		switch s.Op {
		case "collect":
			fs, _, _ := r.Env.Walk(false)
			filesBefore = len(fs)
		case "drain":
			fs, _, _ := r.Env.Walk(false)
			if len(fs) < filesBefore {
				r.Stats.OpClass["pass-removed-files"]++
			}
		}
		return nil
	}
	for vi, v := range variants {
		rt.Beat()
		var vc rt.CaseResult
		out := runSeq(&vc, scratch, "v", dbx.Options{Mode: dbx.Inline}, v, seqrun.Options{Probe: true, AfterStep: after, ProbeMode: (vi + idx) % 4, ProbeSeed: seed + int64(vi)}, seed)
		for _, viol := range vc.Violations {
			viol.Sig += " collector=" + collectorPosClass(names[vi])
			if m, ok := viol.Replay.(map[string]any); ok {
				m["variant"] = names[vi]
				m["base_history"] = base
			}
			c.Violations = append(c.Violations, viol)
		}
		if r := out.Runner; r != nil {
			c.Evals += r.Stats.Probes + r.Stats.Steps
			if r.Stats.OpClass["pass-removed-files"] > 0 && out.Mism == nil {
				c.AddDistinct(fmt.Sprintf("%s/%s", hashSteps(base), names[vi]))
			}
			c.Count("collector_passes", r.Stats.Collected)
			c.Count("passes_that_removed_files", r.Stats.OpClass["pass-removed-files"])
			c.Count("variants", 1)
		}
		if len(c.Violations) >= 3 {
			break
		}
	}
	if idx < 1 {
		c.Sample = map[string]any{"base_history": sampleSteps(base, 16), "variants": len(variants)}
	}
	return c
}

func collectorPosClass(n string) string {
	if n[0] == 'p' {
		return "single"
	}
	return n[:5]
}
