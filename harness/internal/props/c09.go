package props

import (
	"bytes"
	"io"
	"path/filepath"
	"time"

	"fmt"
	"github.com/glebziz/fs_db"
	"github.com/glebziz/fs_db/pkg/verif"
	"verifharness/internal/refmodel"

	"verifharness/internal/dbx"
	"verifharness/internal/rt"
	"verifharness/internal/seqrun"
)

func init() {
	register(&Prop{
		ID: "C09", Level: "exploration",
		Rule:        "differential: a seeded base history H (several snapshot transactions of different ages, a just-begun transaction that has not read yet, RU/RC readers, overwrites, deletes, commits) is run once per collector position p in 0..|H| with a collector pass + worker-pool drain inserted before step p, once with two consecutive passes at a seeded position, and once with a pass before every step; in every variant the open transactions and the autocommit caller read every key and GetKeys after every step (probing order per variant: oldest first / youngest first / shuffled / shuffled subset with skipped rounds, since reads themselves touch the registry) and must equal the reference model, in which the collector does not exist; GetReader streams opened before a pass are read to the end after it. Role scheduled: the database's own scheduled collector job (period 1-250 ms) runs while writes are in progress whose content arrives slowly (pauses of 3 ms to 1.3 s in a SetReader source or between two Writes of a file from Create; autocommit and in transactions; inline and through the server): the write must be complete, nothing else may change, also a few periods later and after a reopen. evaluations = reads compared; distinct_nontrivial = distinct (base history, position) variants in which the pass physically removed at least one content file",
		Assumptions: []string{"reference model refmodel (collector = no-op)"},
		Roles: map[string]Role{
			"main":      {N: func(t string) int { return tierN(t, 24, 1200) }, Case: c09Case},
			"scheduled": {N: func(t string) int { return tierN(t, 12, 240) }, Case: c09Scheduled},
		},
	})
}

func c09Case(tier string, seed int64, idx int, scratch string) rt.CaseResult {
	var c rt.CaseResult
	rng := seqrun.Rng(seed, "C09", idx)
	p := seqrun.Profile{
		Steps: tierN(tier, 34, 50), Keys: txKeys[:2+rng.Intn(2)], Lens: []int{12}, MaxOpen: 4, TxBias: 45,
		TagPrefix: fmt.Sprintf("h%d-", idx),
		W:         map[string]int{"begin": 14, "set": 34, "delete": 6, "commit": 10, "rollback": 3, "getreader_gc": 3, "get": 2},
	}
	base := seqrun.Generate(rng, p)
	gc := []seqrun.Step{{Op: "collect", Actor: -1}, {Op: "drain", Actor: -1}}
	variants := make([][]seqrun.Step, 0, len(base)+3)
	names := make([]string, 0, len(base)+3)
	for pos := 0; pos <= len(base); pos++ {
		v := append(append(append([]seqrun.Step(nil), base[:pos]...), gc...), base[pos:]...)
		variants = append(variants, v)
		names = append(names, fmt.Sprintf("p%d", pos))
	}
	pos := rng.Intn(len(base) + 1)
	variants = append(variants, append(append(append(append([]seqrun.Step(nil), base[:pos]...), gc...), gc...), base[pos:]...))
	names = append(names, fmt.Sprintf("twice@%d", pos))
	var every []seqrun.Step
	for _, s := range base {
		every = append(append(every, gc...), s)
	}
	variants = append(variants, append(every, gc...))
	names = append(names, "every")

	filesBefore := 0
	after := func(r *seqrun.Runner, i int, s seqrun.Step) *seqrun.Mismatch {
		// count physical removals: files on disk before a pass vs after its drain
		switch s.Op {
		case "collect":
			fs, _, _ := r.Env.Walk(false)
			filesBefore = len(fs)
		case "drain":
			fs, _, _ := r.Env.Walk(false)
			if len(fs) < filesBefore {
				r.Stats.OpClass["pass-removed-files"]++
			}
		}
		return nil
	}
	for vi, v := range variants {
		rt.Beat()
		var vc rt.CaseResult
		out := runSeq(&vc, scratch, "v", dbx.Options{Mode: dbx.Inline}, v, seqrun.Options{Probe: true, AfterStep: after, ProbeMode: (vi + idx) % 4, ProbeSeed: seed + int64(vi)}, seed)
		for _, viol := range vc.Violations {
			viol.Sig += " collector=" + collectorPosClass(names[vi])
			if m, ok := viol.Replay.(map[string]any); ok {
				m["variant"] = names[vi]
				m["base_history"] = base
			}
			c.Violations = append(c.Violations, viol)
		}
		if r := out.Runner; r != nil {
			c.Evals += r.Stats.Probes + r.Stats.Steps
			if r.Stats.OpClass["pass-removed-files"] > 0 && out.Mism == nil {
				c.AddDistinct(fmt.Sprintf("%s/%s", hashSteps(base), names[vi]))
			}
			c.Count("collector_passes", r.Stats.Collected)
			c.Count("passes_that_removed_files", r.Stats.OpClass["pass-removed-files"])
			c.Count("variants", 1)
		}
		if len(c.Violations) >= 3 {
			break
		}
	}
	if idx < 1 {
		c.Sample = map[string]any{"base_history": sampleSteps(base, 16), "variants": len(variants)}
	}
	return c
}

func collectorPosClass(n string) string {
	if n[0] == 'p' {
		return "single"
	}
	return n[:5]
}

// pausingReader delivers its content in two parts with a pause in between.
type pausingReader struct {
	data  []byte
	at    int
	pause time.Duration
	off   int
	done  bool
}

func (p *pausingReader) Read(b []byte) (int, error) {
	if p.off >= len(p.data) {
		return 0, io.EOF
	}
	if p.off >= p.at && !p.done {
		p.done = true
		time.Sleep(p.pause)
	}
	end := len(p.data)
	if p.off < p.at {
		end = p.at
	}
	n := copy(b, p.data[p.off:end])
	p.off += n
	return n, nil
}

// c09Scheduled: the database's own scheduled collector job runs every few milliseconds while
// writes are in progress whose content arrives slowly (a source that pauses, a file from Create
// that stays open between two Writes; the pauses are 3 ms to 1.3 s, i.e. many scheduled passes),
// autocommit and inside transactions, over existing values and fresh keys, inline and through
// the server. Whatever the job does, the write that returned nil must be readable completely,
// the values of the other keys must not change, and GetKeys must list exactly the readable keys.
func c09Scheduled(tier string, seed int64, idx int, scratch string) rt.CaseResult {
	var c rt.CaseResult
	rng := seqrun.Rng(seed, "C09s", idx)
	mode := dbx.Inline
	if idx%4 == 3 {
		mode = dbx.Grpc
	}
	gcp := []time.Duration{time.Millisecond, 20 * time.Millisecond, 250 * time.Millisecond}[idx%3]
	env, err := dbx.Open(dbx.Options{Mode: mode, Dir: filepath.Join(scratch, "db"), GCPeriod: gcp, NumWorkers: 1 + idx%3})
	if err != nil {
		c.Violate("open-failed", err.Error(), nil)
		return c
	}
	defer env.Close()
	expect := map[string][]byte{}
	keys := []string{"s0", "s1", "s2", "s3"}
	for i, k := range keys[:2+rng.Intn(2)] {
		v := seqrun.Content(fmt.Sprintf("sch%d-init%d", idx, i), 50)
		if err := env.DB.Set(ctxBg, k, v); err != nil {
			c.Violate("setup-write-failed", err.Error(), nil)
			return c
		}
		expect[k] = v
	}
	verify := func(when string, plan map[string]any) bool {
		for _, k := range keys {
			b, gerr := env.DB.Get(ctxBg, k)
			want, has := expect[k]
			if has && (gerr != nil || !bytes.Equal(b, want)) || !has && seqrun.Class(gerr) != refmodel.NotFound {
				c.Violate("value-changed-by-scheduled-collection "+when, fmt.Sprintf("%s: key %q reads %s (%v), expected %s (has a value: %v); the only other activity was the database's own scheduled collector job", when, k, seqrun.Describe(b), gerr, seqrun.Describe(want), has), plan)
				return false
			}
		}
		ks, kerr := env.DB.GetKeys(ctxBg)
		var wantKeys []string
		for _, k := range keys {
			if _, ok := expect[k]; ok {
				wantKeys = append(wantKeys, k)
			}
		}
		if kerr != nil || fmt.Sprint(ks) != fmt.Sprint(wantKeys) {
			c.Violate("keys-changed-by-scheduled-collection "+when, fmt.Sprintf("%s: GetKeys returns %v (%v), expected %v", when, ks, kerr, wantKeys), plan)
			return false
		}
		return true
	}
	pauses := []time.Duration{3 * time.Millisecond, 40 * time.Millisecond, 300 * time.Millisecond}
	if idx%6 == 0 {
		pauses = append(pauses, 1300*time.Millisecond)
	}
	n := 0
	for _, pause := range pauses {
		for _, api := range []string{"setreader", "create"} {
			for _, inTx := range []bool{false, true} {
				rt.Beat()
				n++
				key := keys[rng.Intn(len(keys))]
				l := []int{600, 5000, 70000}[rng.Intn(3)]
				v := seqrun.Content(fmt.Sprintf("sch%d-w%d", idx, n), l)
				at := 1 + rng.Intn(l-1)
				plan := map[string]any{"seed": seed, "case": idx, "mode": modeName(mode), "api": api, "in_transaction": inTx, "pause": pause.String(), "gc_period": gcp.String(), "len": l, "pause_at": at, "key": key}
				var st fs_db.Store = env.DB
				var tx fs_db.Tx
				if inTx {
					tx, err = env.DB.Begin(ctxBg, verif.IsoLevel([]int{1, 2, 3}[rng.Intn(3)]))
					if err != nil {
						c.Violate("begin-failed", err.Error(), plan)
						return c
					}
					st = tx
				}
				var werr error
				if api == "setreader" {
					werr = st.SetReader(ctxBg, key, &pausingReader{data: v, at: at, pause: pause})
				} else {
					var f fs_db.File
					f, werr = st.Create(ctxBg, key)
					if werr == nil {
						_, werr = f.Write(v[:at])
						time.Sleep(pause)
						if werr == nil {
							_, werr = f.Write(v[at:])
						}
						if cerr := f.Close(); werr == nil {
							werr = cerr
						}
					}
				}
				if werr == nil && inTx {
					if b, gerr := tx.Get(ctxBg, key); gerr != nil || !bytes.Equal(b, v) {
						c.Violate("own-write-unreadable-under-scheduled-collection", fmt.Sprintf("the transaction reads %s (%v) for the key it has just written", seqrun.Describe(b), gerr), plan)
						return c
					}
					werr = tx.Commit(ctxBg)
				}
				c.Evals++
				if werr != nil {
					c.Violate("slow-write-failed-under-scheduled-collection class="+string(seqrun.Class(werr)), fmt.Sprintf("a fault-free write whose content arrived slowly failed: %v", werr), plan)
					return c
				}
				expect[key] = v
				if !verify("after the slow write", plan) {
					return c
				}
				c.AddDistinct(fmt.Sprintf("%s/%s/tx=%v/pause=%s/gc=%s", modeName(mode), api, inTx, pause, gcp))
			}
		}
	}
	time.Sleep(3 * gcp)
	if !verify("a few collector periods later", map[string]any{"seed": seed, "case": idx}) {
		return c
	}
	if err := env.Reopen(); err != nil {
		c.Violate("reopen-failed role=scheduled", err.Error(), nil)
		return c
	}
	verify("after a reopen", map[string]any{"seed": seed, "case": idx})
	if idx == 0 {
		c.Sample = map[string]any{"gc_period": gcp.String(), "pauses": fmt.Sprint(pauses), "slow_writes": n}
	}
	return c
}

func init() {
	p := Registry["C09"]
	p.Roles["longhistory"] = Role{N: func(t string) int { return tierN(t, 4, 32) }, Case: c09LongHistory}
	p.Rule += " Role longhistory: snapshot transactions (and a ReadCommitted one) stay open while one key is overwritten 1100-2600 times (and others a few times), with collector passes + drains at several points: however long the history the open snapshots pin, every pass leaves their reads and key lists unchanged; after they end one more pass leaves one content file per key."
}

// c09LongHistory: an open snapshot across thousands of versions of one key.
func c09LongHistory(tier string, seed int64, idx int, scratch string) rt.CaseResult {
	var c rt.CaseResult
	rng := seqrun.Rng(seed, "C09l", idx)
	mode := dbx.Inline
	if idx%4 == 3 {
		mode = dbx.Grpc
	}
	env, err := dbx.Open(dbx.Options{Mode: mode, Dir: filepath.Join(scratch, "db")})
	if err != nil {
		c.Violate("open-failed", err.Error(), nil)
		return c
	}
	defer env.Close()
	keys := []string{"hot", "warm", "cold"}
	v0 := map[string][]byte{}
	for _, k := range keys {
		v0[k] = seqrun.Content(fmt.Sprintf("lh%d-%s-0", idx, k), 20)
		env.DB.Set(ctxBg, k, v0[k])
	}
	snaps := []fs_db.Tx{}
	for _, lvl := range []int{2, 3} {
		tx, err := env.DB.Begin(ctxBg, verif.IsoLevel(lvl))
		if err != nil {
			c.Violate("begin-failed", err.Error(), nil)
			return c
		}
		snaps = append(snaps, tx)
	}
	if idx%2 == 0 {
		// one of the snapshots has read before the overwrites, the other has not
		snaps[0].Get(ctxBg, "hot")
	}
	n := 1100 + rng.Intn(tierN(tier, 300, 1500))
	passes := map[int]bool{500: true, 1000: true, 1023: true, 1024: true, 1025: true, n: true}
	cur := map[string][]byte{}
	replay := map[string]any{"seed": seed, "case": idx, "mode": modeName(mode), "overwrites": n}
	check := func(when string) bool {
		for si, tx := range snaps {
			for _, k := range keys {
				b, gerr := tx.Get(ctxBg, k)
				c.Evals++
				if gerr != nil || !bytes.Equal(b, v0[k]) {
					c.Violate("snapshot-read-changed-by-collection long-history", fmt.Sprintf("%s: the snapshot transaction %d (begun before the overwrites) reads %s (%v) for %q, it must read %s", when, si, seqrun.Describe(b), gerr, k, seqrun.Describe(v0[k])), replay)
					return false
				}
			}
			ks, kerr := tx.GetKeys(ctxBg)
			if kerr != nil || fmt.Sprint(ks) != "[cold hot warm]" {
				c.Violate("snapshot-keys-changed-by-collection long-history", fmt.Sprintf("%s: GetKeys of snapshot %d returns %v (%v)", when, si, ks, kerr), replay)
				return false
			}
		}
		for _, k := range keys {
			want := v0[k]
			if v, ok := cur[k]; ok {
				want = v
			}
			b, gerr := env.DB.Get(ctxBg, k)
			if gerr != nil || !bytes.Equal(b, want) {
				c.Violate("read-changed-by-collection long-history reader=autocommit", fmt.Sprintf("%s: %q reads %s (%v), its committed value is %s", when, k, seqrun.Describe(b), gerr, seqrun.Describe(want)), replay)
				return false
			}
		}
		return true
	}
	for i := 1; i <= n; i++ {
		if i%128 == 0 {
			rt.Beat()
		}
		v := seqrun.Content(fmt.Sprintf("lh%d-hot-%d", idx, i), 6)
		if err := env.DB.Set(ctxBg, "hot", v); err != nil {
			c.Violate("write-failed role=longhistory", err.Error(), replay)
			return c
		}
		cur["hot"] = v
		if i%400 == 0 {
			w := seqrun.Content(fmt.Sprintf("lh%d-warm-%d", idx, i), 6)
			env.DB.Set(ctxBg, "warm", w)
			cur["warm"] = w
		}
		if passes[i] {
			replay["pass_after_overwrites"] = i
			if err := env.Collect(); err != nil {
				c.Violate("collector-error", err.Error(), replay)
				return c
			}
			if err := env.Drain(); err != nil {
				c.Violate("drain-failed", err.Error(), replay)
				return c
			}
			if !check(fmt.Sprintf("after the pass that followed overwrite %d", i)) {
				return c
			}
			c.AddDistinct(fmt.Sprintf("longhistory/%s/pass@%d", modeName(mode), min(i, 1100)))
		}
	}
	for _, tx := range snaps {
		tx.Rollback(ctxBg)
	}
	if quiesce(&c, env, replay) {
		leakCheck(&c, env, "after-long-history", replay)
	}
	if idx == 0 {
		c.Sample = map[string]any{"overwrites_of_one_key": n, "passes_after": "500, 1000, 1023, 1024, 1025, last"}
	}
	return c
}
