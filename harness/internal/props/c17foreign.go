package props

import (
	"fmt"
	"os"
	"path/filepath"
	"strings"

	"verifharness/internal/dbx"
	"verifharness/internal/rt"
	"verifharness/internal/seqrun"
)

func init() {
	p := Registry["C17"]
	p.Roles["foreign"] = Role{N: func(t string) int { return tierN(t, 4, 32) }, Case: c17Foreign}
	p.Roles["sharedroot"] = Role{N: func(t string) int { return tierN(t, 2, 24) }, Case: c17SharedRoot}
	p.Rule += " Role foreign: before the database is opened its roots already hold entries that are not the database's (directories called <uuid>.bak, old-<uuid>, <uuid>-<uuid>, <uuid>~, .<uuid>, a UUID short of its last digit, lost+found, a number; a regular file with a UUID name; other spellings of a UUID - upper case, braces, urn: - are left out, they are UUID names too): after 150-260 writes, a reopen and more writes every file the database created lies directly inside a directory whose name is a canonical UUID directly inside a root, and nothing was added to or taken from the foreign entries. Role sharedroot: two databases (own metadata directories) share one root and are written to strictly one operation at a time, in turns and in runs: no directory of the shared root ever holds more than the limit."
}

func c17Foreign(tier string, seed int64, idx int, scratch string) rt.CaseResult {
	var c rt.CaseResult
	rng := seqrun.Rng(seed, "C17f", idx)
	base := filepath.Join(scratch, "db")
	nroots := 1 + idx%2
	var roots []string
	u := func() string { return randUUID(rng) }
	foreign := map[string]int{} // directory -> number of entries planted in it
	for i := 0; i < nroots; i++ {
		root := filepath.Join(base, fmt.Sprintf("root%d", i))
		roots = append(roots, root)
		names := []string{u() + ".bak", "old-" + u(), u() + "-" + u(), "lost+found", "1234567890", u() + "~", "." + u(), u()[:35]}
		// only some of them in each case, so that a root whose only sub-directory is foreign occurs too
		for j, n := range names {
			if (j+idx)%3 == 0 || idx%4 == 3 {
				d := filepath.Join(root, n)
				os.MkdirAll(d, 0o755)
				os.WriteFile(filepath.Join(d, u()), []byte("not yours"), 0o644)
				foreign[d] = 1
			}
		}
		os.MkdirAll(root, 0o755)
		os.WriteFile(filepath.Join(root, u()), []byte("a regular file with a UUID name"), 0o644)
	}
	env, err := dbx.Open(dbx.Options{Mode: dbx.Inline, Dir: base, RootPaths: roots, MaxDirCount: 100, MaxDirExplicit: true})
	if err != nil {
		// a database may refuse roots it does not like; it must not misuse them
		c.Count("opens_refused_with_foreign_entries", 1)
		c.AddDistinct("foreign/open-refused")
		return c
	}
	defer func() { env.Close() }()
	replay := map[string]any{"seed": seed, "case": idx, "roots": nroots, "foreign_directories": len(foreign)}
	check := func(when string) bool {
		for d, n := range foreign {
			ents, err := os.ReadDir(d)
			c.Evals++
			if err != nil || len(ents) != n {
				c.Violate("foreign-directory-used", fmt.Sprintf("%s: the directory %s, which is not a UUID-named directory of the database, now holds %d entries (%v); it held %d before the database was opened", when, d, len(ents), err, n), replay)
				return false
			}
		}
		files, _, err := env.Walk(false)
		if err != nil {
			c.Inconclusive = append(c.Inconclusive, "walk: "+err.Error())
			return false
		}
		for _, f := range files {
			parts := strings.Split(f.Rel, "/")
			if len(parts) == 1 {
				continue // the planted regular file directly below the root
			}
			if _, planted := foreign[filepath.Join(f.Root, parts[0])]; planted {
				continue
			}
			c.Evals++
			if len(parts) != 2 || !uuidRe.MatchString(parts[0]) {
				c.Violate("content-file-misplaced foreign-entries-in-root", fmt.Sprintf("%s: %s/%s is not directly inside a directory named by a canonical UUID directly inside a root", when, f.Root, f.Rel), replay)
				return false
			}
		}
		return true
	}
	n := 150 + rng.Intn(110)
	for i := 0; i < n; i++ {
		if i%64 == 0 {
			rt.Beat()
		}
		if err := env.DB.Set(ctxBg, fmt.Sprintf("k%04d", i), []byte("v")); err != nil {
			c.Violate("write-failed foreign-entries-in-root", err.Error(), replay)
			return c
		}
		if i%50 == 49 && !check(fmt.Sprintf("after %d writes", i+1)) {
			return c
		}
	}
	if err := env.Reopen(); err != nil {
		c.Violate("reopen-failed foreign-entries-in-root", err.Error(), replay)
		return c
	}
	for i := 0; i < 120; i++ {
		if err := env.DB.Set(ctxBg, fmt.Sprintf("r%04d", i), []byte("v")); err != nil {
			c.Violate("write-failed foreign-entries-in-root", err.Error(), replay)
			return c
		}
	}
	if !check("after a reopen and 120 more writes") {
		return c
	}
	c.AddDistinct(fmt.Sprintf("foreign/roots=%d/planted=%d", nroots, len(foreign)))
	if idx == 0 {
		c.Sample = replay
	}
	return c
}

func c17SharedRoot(tier string, seed int64, idx int, scratch string) rt.CaseResult {
	var c rt.CaseResult
	rng := seqrun.Rng(seed, "C17s", idx)
	root := filepath.Join(scratch, "shared-root")
	var envs []*dbx.Env
	for i := 0; i < 2+idx%2; i++ {
		e, err := dbx.Open(dbx.Options{Mode: dbx.Inline, Dir: filepath.Join(scratch, fmt.Sprintf("db%d", i)), RootPaths: []string{root}, MaxDirCount: 100, MaxDirExplicit: true})
		if err != nil {
			c.Violate("open-failed shared-root", err.Error(), nil)
			return c
		}
		defer e.Close()
		envs = append(envs, e)
		// the next database is opened when this one has a directory in the root already: its
		// start-up scan finds it and both write into it
		if err := e.DB.Set(ctxBg, fmt.Sprintf("first-of-db%d", i), []byte("v")); err != nil {
			c.Violate("write-failed shared-root", err.Error(), nil)
			return c
		}
	}
	replay := map[string]any{"seed": seed, "case": idx, "databases": len(envs)}
	writes := tierN(tier, 330, 900)
	for i := 0; i < writes; i++ {
		if i%64 == 0 {
			rt.Beat()
		}
		// in turns, and now and then a run of writes through one handle
		e := envs[i%len(envs)]
		if i/40%3 == 2 {
			e = envs[rng.Intn(len(envs))]
		}
		if err := e.DB.Set(ctxBg, fmt.Sprintf("k%05d", i), []byte("v")); err != nil {
			c.Violate("write-failed shared-root", err.Error(), replay)
			return c
		}
		if i%10 == 9 || i > 90 {
			ents, _ := os.ReadDir(root)
			for _, d := range ents {
				if !d.IsDir() {
					continue
				}
				fs, _ := os.ReadDir(filepath.Join(root, d.Name()))
				c.Evals++
				if len(fs) > 100 {
					c.Violate("directory-over-limit shared-root", fmt.Sprintf("after write %d: directory %s of the root shared by %d databases holds %d entries, the limit is 100", i+1, d.Name(), len(envs), len(fs)), replay)
					return c
				}
			}
		}
	}
	c.AddDistinct(fmt.Sprintf("sharedroot/databases=%d", len(envs)))
	if idx == 0 {
		c.Sample = replay
	}
	return c
}
