package props

import (
	"bytes"
	"context"
	"fmt"
	"path/filepath"
	"sort"
	"sync"
	"time"

	"github.com/glebziz/fs_db"
	"github.com/glebziz/fs_db/pkg/verif"

	"verifharness/internal/dbx"
	"verifharness/internal/refmodel"
	"verifharness/internal/rt"
	"verifharness/internal/seqrun"
)

func init() {
	Registry["C03"].Rule += " Role commitfault: the j-th write to the metadata store issued by a Commit fails (fault hook in the Badger manager), for every j and all four levels, with a ReadUncommitted and a RepeatableRead transaction open across it: a Commit that returns an error must leave every reader's view and GetKeys unchanged, end the transaction, survive a reopen unchanged, and must not make a later fault-free commit of the same keys by the older snapshot transaction conflict."
}

// c03CommitFault: a Commit whose metadata transaction fails (the j-th write to the metadata store
// issued by the Commit returns an error; j runs over all of them) is a failed Commit: the committed
// state stays exactly as it was for every reader (autocommit, GetKeys, a ReadUncommitted and a
// RepeatableRead transaction that are open across it), the transaction's writes are discarded, the
// same holds after a reopen - and the failure leaves nothing behind that makes a later, fault-free
// commit of the same keys fail or conflict.
func c03CommitFault(tier string, seed int64, idx int, scratch string) rt.CaseResult {
	var c rt.CaseResult
	rng := seqrun.Rng(seed, "C03f", idx)
	mode := dbx.Inline
	if idx%3 == 2 {
		mode = dbx.Grpc
	}
	env, err := dbx.Open(dbx.Options{Mode: mode, Dir: filepath.Join(scratch, "db")})
	if err != nil {
		c.Violate("open-failed", err.Error(), nil)
		return c
	}
	defer func() { env.Close() }()
	defer verif.SetOpFault(nil)
	keys := []string{"f0", "f1", "f2", "f3"}
	expect := map[string][]byte{}
	n := 0
	val := func(what string) []byte {
		n++
		return seqrun.Content(fmt.Sprintf("cf%d-%s%d", idx, what, n), []int{12, 12, 3000}[rng.Intn(3)])
	}
	for _, k := range keys[:3] {
		v := val("init")
		if err := env.DB.Set(ctxBg, k, v); err != nil {
			c.Violate("setup-write-failed", err.Error(), nil)
			return c
		}
		expect[k] = v
	}
	same := func(b []byte, gerr error, k string) bool {
		want, has := expect[k]
		if !has {
			return seqrun.Class(gerr) == refmodel.NotFound
		}
		return gerr == nil && bytes.Equal(b, want)
	}
	verify := func(st fs_db.Store, who, when string, plan map[string]any) bool {
		for _, k := range keys {
			b, gerr := st.Get(ctxBg, k)
			if !same(b, gerr, k) {
				c.Violate(fmt.Sprintf("failed-commit-changed-state reader=%s %s", who, when), fmt.Sprintf("%s, reader %s: key %q reads %s (%v), the committed value is %s", when, who, k, seqrun.Describe(b), gerr, seqrun.Describe(expect[k])), plan)
				return false
			}
		}
		ks, kerr := st.GetKeys(ctxBg)
		var want []string
		for k := range expect {
			want = append(want, k)
		}
		sort.Strings(want)
		if kerr != nil || fmt.Sprint(ks) != fmt.Sprint(want) {
			c.Violate(fmt.Sprintf("failed-commit-changed-keys reader=%s %s", who, when), fmt.Sprintf("%s, reader %s: GetKeys returns %v (%v), committed keys are %v", when, who, ks, kerr, want), plan)
			return false
		}
		return true
	}
	for _, level := range []int{0, 1, 2, 3} {
		for j := 1; j <= 8; j++ {
			rt.Beat()
			plan := map[string]any{"seed": seed, "case": idx, "mode": modeName(mode), "level": level, "jth_metadata_write_of_commit": j}
			ru, err1 := env.DB.Begin(ctxBg, fs_db.IsoLevelReadUncommitted)
			snap, err2 := env.DB.Begin(ctxBg, fs_db.IsoLevelRepeatableRead)
			tx, err3 := env.DB.Begin(ctxBg, verif.IsoLevel(level))
			if err1 != nil || err2 != nil || err3 != nil {
				c.Violate("begin-failed", fmt.Sprint(err1, err2, err3), plan)
				return c
			}
			// the transaction's write set: 1-4 keys, overwrites, a delete, a key written twice, a new key
			writes := map[string][]byte{}
			deleted := map[string]bool{}
			nw := 1 + rng.Intn(4)
			for i := 0; i < nw; i++ {
				k := keys[rng.Intn(len(keys))]
				if rng.Intn(5) == 0 {
					if err := tx.Delete(ctxBg, k); err != nil {
						c.Violate("write-in-transaction-failed", err.Error(), plan)
						return c
					}
					deleted[k] = true
					delete(writes, k)
					continue
				}
				v := val("w")
				if err := tx.Set(ctxBg, k, v); err != nil {
					c.Violate("write-in-transaction-failed", err.Error(), plan)
					return c
				}
				writes[k] = v
				delete(deleted, k)
			}
			plan["keys_written"], plan["keys_deleted"] = len(writes), len(deleted)
			fired := armMetaFault(j, metaWriteOps)
			cerr := tx.Commit(ctxBg)
			verif.SetOpFault(nil)
			if !fired() {
				// fewer than j metadata writes: this was a fault-free commit
				if cerr != nil {
					c.Violate("commit-failed-without-fault role=commitfault", cerr.Error(), plan)
					return c
				}
				for k, v := range writes {
					expect[k] = v
				}
				for k := range deleted {
					delete(expect, k)
				}
				ru.Rollback(ctxBg)
				snap.Rollback(ctxBg)
				if !verify(env.DB, "autocommit", "after a fault-free commit", plan) {
					return c
				}
				break
			}
			c.Evals++
			c.Count("commits_with_fault", 1)
			if cerr == nil {
				// the store got over the failure: then the commit is a commit
				for k, v := range writes {
					expect[k] = v
				}
				for k := range deleted {
					delete(expect, k)
				}
				c.Count("commits_succeeded_despite_fault", 1)
			}
			if !verify(env.DB, "autocommit", "after the failed commit", plan) || !verify(ru, "read-uncommitted", "after the failed commit", plan) {
				return c
			}
			if cerr != nil {
				// the snapshot transaction began before: it still sees the same committed state, and
				// since nothing was committed it can write the same keys and commit without a conflict
				if !verify(snap, "repeatable-read-begun-before", "after the failed commit", plan) {
					return c
				}
				if e := tx.Commit(ctxBg); seqrun.Class(e) != refmodel.TxNotFound {
					c.Violate("failed-commit-left-transaction-open", fmt.Sprintf("a second Commit through the transaction whose Commit failed returned %v, expected ErrTxNotFound", e), plan)
					return c
				}
				for k := range writes {
					v := val("s")
					if e := snap.Set(ctxBg, k, v); e != nil {
						c.Violate("write-in-transaction-failed", e.Error(), plan)
						return c
					}
					writes[k] = v
				}
				if e := snap.Commit(ctxBg); e != nil {
					c.Violate("commit-after-failed-commit-rejected class="+string(seqrun.Class(e)), fmt.Sprintf("a RepeatableRead transaction that began before the failed commit wrote the same keys and its fault-free Commit failed: %v (nothing was committed since it began)", e), plan)
					return c
				}
				for k, v := range writes {
					expect[k] = v
				}
				if !verify(env.DB, "autocommit", "after the follow-up commit", plan) {
					return c
				}
			} else {
				snap.Rollback(ctxBg)
			}
			ru.Rollback(ctxBg)
			c.AddDistinct(fmt.Sprintf("%s/level=%d/j=%d/writes=%d/deletes=%d/commit-ok=%v", modeName(mode), level, j, len(writes), len(deleted), cerr == nil))
		}
	}
	if err := env.Reopen(); err != nil {
		c.Violate("reopen-failed role=commitfault", err.Error(), nil)
		return c
	}
	verify(env.DB, "autocommit", "after a reopen", map[string]any{"seed": seed, "case": idx})
	if idx == 0 {
		c.Sample = map[string]any{"plan": "the j-th metadata write of a Commit fails, all four levels, readers open across it", "mode": modeName(mode)}
	}
	return c
}

func init() {
	p := Registry["C03"]
	p.Roles["doubleend"] = Role{N: func(t string) int { return tierN(t, 8, 64) }, Case: c03DoubleEnd}
	p.Rule += " Role doubleend: Commit||Commit and Commit||Rollback on one transaction, released together by a spin barrier (600-2000 rounds per case, all levels, inline and gRPC): a Commit that returned nil has made the transaction's write the committed value, if no Commit returned nil nothing changed, and two Commits never both succeed."
}

// c03DoubleEnd: a Commit that says nil has committed, also when another goroutine ends the same
// transaction at the same moment.
func c03DoubleEnd(tier string, seed int64, idx int, scratch string) rt.CaseResult {
	var c rt.CaseResult
	mode := dbx.Inline
	if idx%4 == 3 {
		mode = dbx.Grpc
	}
	env, err := dbx.Open(dbx.Options{Mode: mode, Dir: filepath.Join(scratch, "db")})
	if err != nil {
		c.Violate("open-failed", err.Error(), nil)
		return c
	}
	defer env.Close()
	rng := seqrun.Rng(seed, "C03d", idx)
	curD := "<" + string(refmodel.NotFound) + ">"
	rounds := tierN(tier, 600, 2000)
	if mode == dbx.Grpc {
		rounds /= 4
	}
	for it := 0; it < rounds; it++ {
		if it%32 == 0 {
			rt.Beat()
		}
		var bad bool
		curD, bad = doubleEnd(&c, env, rng, fmt.Sprintf("e%d-%d", idx, it), curD, it%2, "C03")
		if bad {
			return c
		}
	}
	if idx == 0 {
		c.Sample = map[string]any{"scenario": "Commit||Commit and Commit||Rollback on one transaction", "rounds": rounds}
	}
	return c
}

func init() {
	p := Registry["C03"]
	p.Roles["conflictstorm"] = Role{N: func(t string) int { return tierN(t, 4, 32) }, Case: c03ConflictStorm}
	p.Rule += " Role conflictstorm: 600-3000 snapshot commits in a row that lose to an autocommit write (one transaction open at a time; each failed Commit followed by the customary Rollback), interleaved with rolled-back and successful transactions: every Commit fails with ErrTxSerialization exactly as the first one did, the committed state follows the autocommit writes, and Begin keeps working (whatever a failed Commit holds on to must be given back)."
}

// c03ConflictStorm: hundreds of failed commits must not wear anything out.
func c03ConflictStorm(tier string, seed int64, idx int, scratch string) rt.CaseResult {
	var c rt.CaseResult
	mode := dbx.Inline
	if idx%4 == 3 {
		mode = dbx.Grpc
	}
	env, err := dbx.Open(dbx.Options{Mode: mode, Dir: filepath.Join(scratch, "db")})
	if err != nil {
		c.Violate("open-failed", err.Error(), nil)
		return c
	}
	defer env.Close()
	rng := seqrun.Rng(seed, "C03s", idx)
	rounds := tierN(tier, 600, 3000)
	if mode == dbx.Grpc {
		rounds /= 2
	}
	var cur []byte
	for it := 0; it < rounds; it++ {
		if it%32 == 0 {
			rt.Beat()
		}
		rp := map[string]any{"seed": seed, "case": idx, "mode": modeName(mode), "round": it}
		tx, err := env.DB.Begin(ctxBg, verif.IsoLevel(2+rng.Intn(2)))
		if err != nil {
			c.Violate("begin-failed after-many-failed-commits", fmt.Sprintf("round %d: %v", it, err), rp)
			return c
		}
		if err := tx.Set(ctxBg, "k", []byte(fmt.Sprintf("tx-%d-%d", idx, it))); err != nil {
			c.Violate("write-in-transaction-failed", err.Error(), rp)
			return c
		}
		kind := it % 8
		c.Evals++
		switch {
		case kind == 6: // rolled back
			if err := tx.Rollback(ctxBg); err != nil {
				c.Violate("rollback-failed", err.Error(), rp)
				return c
			}
		case kind == 7: // nobody interferes: the commit succeeds
			if err := tx.Commit(ctxBg); err != nil {
				c.Violate("clean-commit-rejected class="+string(seqrun.Class(err))+" after-many-failed-commits", fmt.Sprintf("round %d: a commit without any conflict failed: %v", it, err), rp)
				return c
			}
			cur = []byte(fmt.Sprintf("tx-%d-%d", idx, it))
		default:
			cur = []byte(fmt.Sprintf("auto-%d-%d", idx, it))
			if err := env.DB.Set(ctxBg, "k", cur); err != nil {
				c.Violate("write-failed", err.Error(), rp)
				return c
			}
			if err := tx.Commit(ctxBg); seqrun.Class(err) != refmodel.TxSerial {
				c.Violate("conflict-commit-accepted after-many-failed-commits got="+string(seqrun.Class(err)), fmt.Sprintf("round %d: the commit of a snapshot transaction whose key was written by an autocommit Set after its Begin returned %v", it, err), rp)
				return c
			}
			if err := tx.Rollback(ctxBg); err != nil {
				c.Violate("late-rollback-not-a-no-op", err.Error(), rp)
				return c
			}
		}
		if it%50 == 49 {
			b, gerr := env.DB.Get(ctxBg, "k")
			if gerr != nil || !bytes.Equal(b, cur) {
				c.Violate("read-wrong-value after-many-failed-commits", fmt.Sprintf("round %d: k reads %q (%v), committed %q", it, b, gerr, cur), rp)
				return c
			}
		}
	}
	c.AddDistinct(fmt.Sprintf("conflictstorm/%s/%d", modeName(mode), rounds/500*500))
	if idx == 0 {
		c.Sample = map[string]any{"rounds": rounds, "mode": modeName(mode)}
	}
	return c
}

func init() {
	p := Registry["C03"]
	p.Roles["commitcancel"] = Role{N: func(t string) int { return tierN(t, 8, 64) }, Case: c03CommitCancel}
	p.Rule += " Role commitcancel: the context handed to Commit is cancelled while the commit is under way - by a context whose Err() turns from nil to Canceled after its k-th consultation (k = 0..8: the cancellation lands between any two look-ups the commit path makes) and by a timer after 0-3 ms - for commits of 1 to 1500 keys, all levels, inline and gRPC: a Commit that returns nil has published all its writes; one that returns an error has left the committed state unchanged, now, 30 ms later and after a reopen (through the server a cancellation can cross the answer: there the commit may have taken effect, but then completely)."
}

// flipCtx is a context that is alive for its first n consultations and cancelled from then on.
type flipCtx struct {
	context.Context
	mu   sync.Mutex
	left int
	done chan struct{}
}

func newFlipCtx(n int) *flipCtx {
	return &flipCtx{Context: context.Background(), left: n, done: make(chan struct{})}
}

func (f *flipCtx) flip() bool {
	f.mu.Lock()
	defer f.mu.Unlock()
	if f.left > 0 {
		f.left--
		return false
	}
	select {
	case <-f.done:
	default:
		close(f.done)
	}
	return true
}

func (f *flipCtx) Err() error {
	if f.flip() {
		return context.Canceled
	}
	return nil
}

func (f *flipCtx) Done() <-chan struct{} {
	f.flip()
	return f.done
}

// c03CommitCancel: a Commit whose context is cancelled on the way.
func c03CommitCancel(tier string, seed int64, idx int, scratch string) rt.CaseResult {
	var c rt.CaseResult
	mode := dbx.Inline
	if idx%4 == 3 {
		mode = dbx.Grpc
	}
	env, err := dbx.Open(dbx.Options{Mode: mode, Dir: filepath.Join(scratch, "db")})
	if err != nil {
		c.Violate("open-failed", err.Error(), nil)
		return c
	}
	defer func() { env.Close() }()
	rng := seqrun.Rng(seed, "C03c", idx)
	expect := map[string][]byte{}
	verify := func(when string, plan map[string]any, keys []string) bool {
		for _, k := range keys {
			b, gerr := env.DB.Get(ctxBg, k)
			want, has := expect[k]
			if has && (gerr != nil || !bytes.Equal(b, want)) || !has && seqrun.Class(gerr) != refmodel.NotFound {
				c.Violate("cancelled-commit-inconsistent "+when, fmt.Sprintf("%s: %q reads %s (%v), expected %s (has a value: %v)", when, k, seqrun.Describe(b), gerr, seqrun.Describe(want), has), plan)
				return false
			}
		}
		return true
	}
	var allKeys []string
	seenKey := map[string]bool{}
	for it := 0; it < tierN(tier, 12, 40); it++ {
		rt.Beat()
		nk := []int{1, 3, 40, 40, 400, 1500}[rng.Intn(6)]
		if mode == dbx.Grpc && nk > 400 {
			nk = 400
		}
		level := rng.Intn(4)
		tx, err := env.DB.Begin(ctxBg, verif.IsoLevel(level))
		if err != nil {
			c.Violate("begin-failed", err.Error(), nil)
			return c
		}
		writes := map[string][]byte{}
		var keys []string
		for i := 0; i < nk; i++ {
			k := fmt.Sprintf("cc%d", (it*7+i)%1600)
			v := seqrun.Content(fmt.Sprintf("cc%d-%d-%d", idx, it, i), 8)
			if err := tx.Set(ctxBg, k, v); err != nil {
				c.Violate("write-in-transaction-failed", err.Error(), nil)
				return c
			}
			if _, dup := writes[k]; !dup {
				keys = append(keys, k)
			}
			writes[k] = v
			if !seenKey[k] {
				seenKey[k] = true
				allKeys = append(allKeys, k)
			}
		}
		var ctx context.Context
		how := ""
		if it%2 == 0 && mode == dbx.Inline {
			k := rng.Intn(9)
			ctx = newFlipCtx(k)
			how = fmt.Sprintf("context cancelled at its consultation number %d", k+1)
		} else {
			cctx, cancel := context.WithCancel(ctxBg)
			d := time.Duration(rng.Intn(3000)) * time.Microsecond
			if it%4 == 1 {
				d = 0
				cancel() // done before Commit is called: over gRPC the request never leaves the client
			}
			t := time.AfterFunc(d, cancel)
			defer t.Stop()
			defer cancel()
			ctx = cctx
			how = fmt.Sprintf("context cancelled %v after Commit was called", d)
		}
		cerr := tx.Commit(ctx)
		c.Evals++
		plan := map[string]any{"seed": seed, "case": idx, "mode": modeName(mode), "level": level, "keys_in_commit": nk, "cancellation": how, "commit_result": fmt.Sprint(cerr)}
		took := cerr == nil
		if cerr != nil && mode == dbx.Grpc {
			// over the wire a cancellation can cross the server's answer: the caller gets an error and
			// cannot know whether the commit took effect. Either is legitimate - but it is all of the
			// commit or nothing of it, and it does not change any more once the server is done
			time.Sleep(60 * time.Millisecond)
			if b, gerr := env.DB.Get(ctxBg, keys[0]); gerr == nil && bytes.Equal(b, writes[keys[0]]) {
				took = true
			}
			plan["took_effect_although_the_caller_got_an_error"] = took
		}
		if took {
			for k, v := range writes {
				expect[k] = v
			}
		}
		if !verify("right after the Commit", plan, keys) {
			return c
		}
		time.Sleep(30 * time.Millisecond)
		if !verify("30 ms after the Commit", plan, keys) {
			return c
		}
		rberr := tx.Rollback(ctxBg)
		if again := tx.Commit(ctxBg); rberr == nil && again == nil && !took {
			c.Violate("commit-after-rollback-succeeded after-cancelled-commit", fmt.Sprintf("Commit (%s) returned %v, Rollback of the same handle returned nil, a further Commit returned nil as well", how, cerr), plan)
			return c
		}
		// whatever the Commit said, the transaction is over now: a ReadUncommitted reader sees the
		// committed state and nothing else
		if ru, rerr := env.DB.Begin(ctxBg, fs_db.IsoLevelReadUncommitted); rerr == nil {
			for i, k := range keys {
				if i > 60 {
					break
				}
				b, gerr := ru.Get(ctxBg, k)
				want, has := expect[k]
				if has && (gerr != nil || !bytes.Equal(b, want)) || !has && seqrun.Class(gerr) != refmodel.NotFound {
					c.Violate("cancelled-commit-left-writes-visible reader=read-uncommitted", fmt.Sprintf("after the Commit (%v) and a Rollback of the same handle, a ReadUncommitted transaction reads %q as %s (%v), committed is %s (has a value: %v)", cerr, k, seqrun.Describe(b), gerr, seqrun.Describe(want), has), plan)
					ru.Rollback(ctxBg)
					return c
				}
			}
			ru.Rollback(ctxBg)
		}
		c.AddDistinct(fmt.Sprintf("commitcancel/%s/keys=%d/committed=%v", modeName(mode), nk, cerr == nil))
		c.Count("commits_cancelled_that_failed", b2i(cerr != nil))
	}
	if err := env.Reopen(); err != nil {
		c.Violate("reopen-failed role=commitcancel", err.Error(), nil)
		return c
	}
	verify("after a reopen", map[string]any{"seed": seed, "case": idx, "mode": modeName(mode)}, allKeys)
	if idx == 0 {
		c.Sample = map[string]any{"scenario": "Commit with a context that is cancelled on the way", "mode": modeName(mode)}
	}
	return c
}
