package props

import (
	"bytes"
	"context"
	"errors"
	"fmt"
	"io"
	"os"
	"os/exec"
	"path/filepath"
	"strings"
	"sync"
	"sync/atomic"
	"syscall"
	"time"

	"github.com/glebziz/fs_db"
	"github.com/glebziz/fs_db/pkg/verif"

	"verifharness/internal/conc"
	"verifharness/internal/dbx"
	"verifharness/internal/refmodel"
	"verifharness/internal/rt"
	"verifharness/internal/seqrun"
)

func init() {
	register(&Prop{
		ID: "C10", Level: "fault_enumeration",
		Rule:        "enumerated fault plans: content length L (grid around 2048/32768/65536 and 100000-150000) x API (Set, SetReader, Create+Write+Close) x client (inline, gRPC) x fault: source reader fails at offset p in {0,1,2047,2048,2049,L/2,L-1} (error alone and (n>0,err)); gRPC (and, for the cancellation, the inline client too): caller's context cancelled after p bytes were consumed; gRPC: TCP connection cut by a harness-side proxy after p request bytes; no-space at the k-th write of a content file, full (0 bytes) or partial (j bytes really written, then ENOSPC), on 1-3 roots whose reported free space is supplied through the disk-usage hook in the patterns {faulty root has least free, faulty root has most free, all roots faulty, two faulty + one healthy with most free}; the same on a real 100 KiB tmpfs root (real ENOSPC, real partial writes) when mounting is permitted. Role grpccut repeats the cuts that hit a stream while it is being set up (first request byte, first few hundred bytes, or all connections closed from another goroutine within microseconds of the call) and the cancellations that race with the completion of the upload (context cancelled when the source is exhausted, or up to 2048 bytes earlier), hundreds of times per case: a stream the server has not seen is re-created and replayed by gRPC, so a client that completes it after a failed send stores a truncated value. Role opfault injects one failure of mkdir / file creation (first write into fresh storage, the write that replaces a full directory, an ordinary write): usual oracle, and the writes that follow without a fault must succeed. Role writeerr makes the k-th write of a content file fail with an error other than no-space (EIO, EFBIG, EDQUOT, EROFS; nothing or a part of the chunk really written), on 1-3 roots, inline and through the server: whatever the store does about it, an error must leave no trace and a success must be complete. Role metafault makes the j-th write to the metadata store (content record, version record; direct, or inside a metadata transaction) issued by one Set / SetReader / Create-Close / Delete fail, for every j until the call issues no more: the failed call must be invisible to the autocommit reader, to a long-lived ReadUncommitted transaction, to GetKeys, and after a reopen. A concurrent reader polls Get(key) during the faulty write. Oracle: error => an independent client reads the previous value (or ErrNotFound) during and after, class ErrNoFreeSpace where the statement says so; success => reads exactly the source bytes; with a healthy root reporting more free space than every faulty one the write must succeed. evaluations = plans executed; distinct_nontrivial = distinct (client, API, fault kind, offset class, root pattern, outcome) tuples",
		Assumptions: []string{"hook-injected ENOSPC models real ENOSPC (cross-checked on a real tmpfs root when mounting is permitted)"},
		Roles: map[string]Role{
			"reader":    {N: func(t string) int { return tierN(t, 12, 64) }, Case: c10Reader},
			"nospace":   {N: func(t string) int { return tierN(t, 12, 96) }, Case: c10NoSpace},
			"grpc":      {N: func(t string) int { return tierN(t, 8, 48) }, Case: c10Grpc},
			"grpccut":   {N: func(t string) int { return tierN(t, 16, 96) }, Case: c10GrpcCut},
			"opfault":   {N: func(t string) int { return tierN(t, 8, 64) }, Case: c10OpFault},
			"writeerr":  {N: func(t string) int { return tierN(t, 8, 64) }, Case: c10WriteErr},
			"metafault": {N: func(t string) int { return tierN(t, 8, 64) }, Case: c10MetaFault},
			"tmpfs":     {N: func(t string) int { return tierN(t, 2, 8) }, Case: c10Tmpfs, Procs: 2},
		},
	})
}

var errInjected = errors.New("injected source failure")

// faultReader delivers data[:off] and then fails; withData makes the failing
// Read return the last piece together with the error.
type faultReader struct {
	data     []byte
	off      int
	pos      int
	withData bool
	onOffset func()
	fired    bool
	err      error // the failure (default errInjected)
}

// sourceErrors are failures a source may report; several of them are values that code between
// the source and the store is tempted to give a meaning of its own (end of content, time-out ...)
var sourceErrors = []error{errInjected, io.ErrUnexpectedEOF, io.ErrClosedPipe, io.ErrShortBuffer, io.ErrNoProgress, context.Canceled, context.DeadlineExceeded, os.ErrDeadlineExceeded, os.ErrClosed, syscall.ENOSPC, syscall.EPIPE, fmt.Errorf("wrapped: %w", io.EOF)}

func (r *faultReader) failure() error {
	if r.err != nil {
		return r.err
	}
	return errInjected
}

func (r *faultReader) Read(p []byte) (int, error) {
	if r.pos >= r.off {
		if r.onOffset != nil && !r.fired {
			r.fired = true
			r.onOffset()
			// keep delivering: the failure is the context / the connection
			r.off = len(r.data)
			return r.Read(p)
		}
		if r.pos >= len(r.data) {
			return 0, io.EOF
		}
		return 0, r.failure()
	}
	n := copy(p, r.data[r.pos:r.off])
	if n > 1500 {
		n = 1500 // irregular pieces
	}
	r.pos += n
	if r.pos >= r.off && r.withData && r.onOffset == nil && r.off < len(r.data) {
		return n, r.failure()
	}
	return n, nil
}

func offsetClass(p, l int) string {
	switch {
	case p == 0:
		return "0"
	case p == 1:
		return "1"
	case p == l:
		return "L"
	case p == l-1:
		return "L-1"
	case p == l/2:
		return "L/2"
	case p < 2048:
		return "<2048"
	case p == 2048:
		return "2048"
	default:
		return ">2048"
	}
}

type c10Ctx struct {
	c      *rt.CaseResult
	env    *dbx.Env
	verify fs_db.DB // independent client
	seed   int64
}

// poller reads the key continuously while a faulty write is in progress.
type poller struct {
	stop atomic.Bool
	wg   sync.WaitGroup
	bad  atomic.Pointer[string]
	n    atomic.Int64
}

func startPoller(db fs_db.DB, key string, allowed [][]byte, allowMissing bool) *poller {
	p := &poller{}
	p.wg.Add(1)
	go func() {
		defer p.wg.Done()
		for !p.stop.Load() {
			b, err := db.Get(ctxBg, key)
			p.n.Add(1)
			ok := false
			if err != nil {
				ok = allowMissing && seqrun.Class(err) == refmodel.NotFound
			} else {
				for _, a := range allowed {
					if bytes.Equal(a, b) {
						ok = true
					}
				}
			}
			if !ok {
				s := fmt.Sprintf("concurrent Get returned %s (%v)", seqrun.Describe(b), err)
				p.bad.Store(&s)
				return
			}
			time.Sleep(100 * time.Microsecond)
		}
	}()
	return p
}

func (p *poller) finish() *string { p.stop.Store(true); p.wg.Wait(); return p.bad.Load() }

// c10Source returns a reader over src. Every other time it is a seekable reader over a longer
// buffer that stands after a 16-byte header which the caller has consumed already: the value to
// store is the stream from the reader's current position, not the underlying buffer from offset 0.
var c10SourceN int

func c10Source(src []byte) io.Reader {
	c10SourceN++
	if c10SourceN%2 == 0 {
		return bytes.NewReader(src)
	}
	r := bytes.NewReader(append([]byte("HEADER-16-BYTES!"), src...))
	r.Seek(16, io.SeekStart)
	return r
}

// doWrite performs the write through the chosen API with the given source.
func doWrite(db fs_db.Store, ctx context.Context, api, key string, src io.Reader, whole []byte) error {
	switch api {
	case "set":
		return db.Set(ctx, key, whole)
	case "setreader":
		return db.SetReader(ctx, key, src)
	default:
		f, err := db.Create(ctx, key)
		if err != nil {
			return err
		}
		buf := make([]byte, 3000)
		var werr error
		for {
			n, rerr := src.Read(buf)
			if n > 0 {
				if _, werr = f.Write(buf[:n]); werr != nil {
					break
				}
			}
			if rerr == io.EOF {
				break
			}
			if rerr != nil {
				// the caller's source failed: with Create the caller decides; it closes the file,
				// which stores what was written so far (that is the contract of Create), so the
				// reader-failure plans are not run through Create
				werr = rerr
				break
			}
		}
		cerr := f.Close()
		if werr != nil {
			return werr
		}
		return cerr
	}
}

// judge checks the state after a write that returned err.
func (x *c10Ctx) judge(plan map[string]any, key string, err error, src, prev []byte, hadPrev bool, wantOK *bool, wantClass refmodel.ErrClass, pollBad *string) bool {
	sigBase := fmt.Sprintf("mode=%v api=%v fault=%v", plan["mode"], plan["api"], plan["fault"])
	if pollBad != nil {
		x.c.Violate("partial-or-foreign-content-visible-during-write "+sigBase, *pollBad, plan)
		return false
	}
	if wantOK != nil && *wantOK && err != nil {
		x.c.Violate("write-must-succeed-but-failed "+sigBase+" class="+string(seqrun.Class(err)), fmt.Sprintf("a healthy root reporting more free space was available, but the write failed: %v", err), plan)
		return false
	}
	if wantOK != nil && !*wantOK && err == nil {
		x.c.Violate("write-reported-success-despite-fault "+sigBase, "the fault made storing impossible, but the write returned nil", plan)
		return false
	}
	if err != nil && wantClass != "" && seqrun.Class(err) != wantClass {
		x.c.Violate(fmt.Sprintf("wrong-error-class %s want=%s got=%s", sigBase, wantClass, seqrun.Class(err)), err.Error(), plan)
		return false
	}
	check := func(when string) bool {
		b, gerr := x.verify.Get(ctxBg, key)
		if err == nil {
			if gerr != nil || !bytes.Equal(b, src) {
				what := "other content"
				switch {
				case gerr != nil:
					what = gerr.Error()
				case len(b) > len(src):
					what = fmt.Sprintf("%d bytes instead of %d (duplicated bytes?)", len(b), len(src))
				case len(b) < len(src) && bytes.Equal(b, src[:len(b)]):
					what = fmt.Sprintf("a strict prefix: %d of %d bytes", len(b), len(src))
				}
				x.c.Violate("successful-write-incomplete "+sigBase, fmt.Sprintf("the write returned nil but an independent client reads %s %s: %s", seqrun.Describe(b), when, what), plan)
				return false
			}
			return true
		}
		if hadPrev {
			if gerr != nil || !bytes.Equal(b, prev) {
				what := "other content"
				if gerr == nil && len(b) <= len(src) && bytes.Equal(b, src[:len(b)]) {
					what = fmt.Sprintf("a prefix (%d of %d bytes) of the failed write", len(b), len(src))
				}
				x.c.Violate("failed-write-left-trace "+sigBase, fmt.Sprintf("the write failed (%v) but an independent client reads %s (%v) %s instead of the previous value: %s", err, seqrun.Describe(b), gerr, when, what), plan)
				return false
			}
		} else if seqrun.Class(gerr) != refmodel.NotFound {
			x.c.Violate("failed-write-left-trace "+sigBase, fmt.Sprintf("the write failed (%v) but an independent client reads %s (%v) %s; the key had no value before", err, seqrun.Describe(b), gerr, when), plan)
			return false
		}
		return true
	}
	if !check("right after the call") {
		return false
	}
	if err != nil && plan["mode"] == "grpc" {
		// the server may still be working on the broken upload: keep looking for a while
		for i := 0; i < 8; i++ {
			time.Sleep(5 * time.Millisecond)
			if !check(fmt.Sprintf("%d ms after the call", (i+1)*5)) {
				return false
			}
		}
	}
	return true
}

var c10Lens = []int{1, 2047, 2048, 2049, 4097, 32767, 32768, 32769, 65537, 100000, 150000}

func c10Reader(tier string, seed int64, idx int, scratch string) rt.CaseResult {
	var c rt.CaseResult
	mode := dbx.Inline
	if idx%2 == 1 {
		mode = dbx.Grpc
	}
	env, err := dbx.Open(dbx.Options{Mode: mode, Dir: filepath.Join(scratch, "db"), Proxy: mode == dbx.Grpc})
	if err != nil {
		c.Violate("open-failed", err.Error(), nil)
		return c
	}
	defer env.Close()
	x := &c10Ctx{c: &c, env: env, verify: env.DB, seed: seed}
	if env.Direct != nil {
		x.verify = env.Direct
	}
	rng := seqrun.Rng(seed, "C10r", idx)
	n := 0
	for li, l := range c10Lens {
		if (li+idx/2)%tierN(tier, 3, 1) != 0 {
			continue
		}
		offs := []int{0, 1, 2047, 2048, 2049, l / 2, l - 1}
		for _, off := range offs {
			if off >= l || off < 0 {
				continue
			}
			for _, withData := range []bool{false, true} {
				for _, hadPrev := range []bool{false, true} {
					if rng.Intn(tierN(tier, 2, 1)) != 0 {
						continue
					}
					rt.Beat()
					n++
					key := fmt.Sprintf("k%d", n%3)
					var prev []byte
					// make the "previous value" state
					if hadPrev {
						prev = seqrun.Content(fmt.Sprintf("c%d-p%d", idx, n), 64)
						x.verify.Set(ctxBg, key, prev)
					} else {
						x.verify.Delete(ctxBg, key)
					}
					src := seqrun.Content(fmt.Sprintf("c%d-s%d", idx, n), l)
					plan := map[string]any{"mode": modeName(mode), "api": "setreader", "fault": "reader-error", "len": l, "offset": off, "with_data": withData, "had_previous": hadPrev, "seed": seed}
					var allowed [][]byte
					if hadPrev {
						allowed = [][]byte{prev}
					}
					pl := startPoller(x.verify, key, allowed, !hadPrev)
					serr := sourceErrors[(n+idx)%len(sourceErrors)]
					plan["source_error"] = serr.Error()
					werr := env.DB.SetReader(ctxBg, key, &faultReader{data: src, off: off, withData: withData, err: serr})
					bad := pl.finish()
					no := false
					c.Evals++
					if !x.judge(plan, key, werr, src, prev, hadPrev, &no, "", bad) {
						return c
					}
					c.AddDistinct(fmt.Sprintf("%s/setreader/reader-error/data=%v/off=%s/prev=%v", modeName(mode), withData, offsetClass(off, l), hadPrev))
					c.Observe("source errors used", serr.Error())
					c.Count("polls_during_faulty_writes", pl.n.Load())
				}
			}
		}
	}
	if idx < 2 {
		c.Sample = map[string]any{"plan": map[string]any{"mode": modeName(mode), "api": "setreader", "fault": "reader-error at offset p, alone and (n>0,err)", "lens": c10Lens}}
	}
	return c
}

// rootOf returns the index of the root that contains path (-1 if none).
func rootOf(roots []string, path string) int {
	for i, r := range roots {
		if strings.HasPrefix(path, filepath.Clean(r)+"/") {
			return i
		}
	}
	return -1
}

func c10NoSpace(tier string, seed int64, idx int, scratch string) rt.CaseResult {
	var c rt.CaseResult
	rng := seqrun.Rng(seed, "C10n", idx)
	nroots := 1 + idx%3
	mode := dbx.Inline
	if idx%4 == 3 {
		mode = dbx.Grpc
	}
	env, err := dbx.Open(dbx.Options{Mode: mode, Dir: filepath.Join(scratch, "db"), Roots: nroots})
	if err != nil {
		c.Violate("open-failed", err.Error(), nil)
		return c
	}
	defer env.Close()
	defer verif.SetWriteFault(nil)
	defer verif.SetDiskFree(nil)
	roots := env.Cfg.Storage.RootDirs
	x := &c10Ctx{c: &c, env: env, verify: env.DB, seed: seed}
	patterns := []string{"faulty-least-free", "faulty-most-free", "all-faulty", "two-faulty-one-healthy-most-free"}
	plans := 0
	for _, l := range []int{1, 2048, 40000, 70000, 150000} {
		for _, pat := range patterns {
			if pat == "two-faulty-one-healthy-most-free" && nroots < 3 {
				continue
			}
			if pat == "faulty-least-free" && nroots < 2 {
				continue
			}
			for _, partial := range []int{0, 1, 4096, 30000} {
				for _, api := range []string{"set", "setreader", "create"} {
					if rng.Intn(tierN(tier, 6, 2)) != 0 {
						continue
					}
					chunks := (l + 32767) / 32768
					k := 1 + rng.Intn(chunks)
					if partial >= l || (k == chunks && partial >= l-(chunks-1)*32768) {
						partial = 0
					}
					rt.Beat()
					plans++
					// free space by root and the set of faulty roots
					free := make([]uint64, nroots)
					faulty := map[int]bool{}
					perm := rng.Perm(nroots)
					switch pat {
					case "faulty-least-free":
						for i, r := range perm {
							free[r] = uint64(1000 * (i + 1))
						}
						faulty[perm[0]] = true
					case "faulty-most-free":
						for i, r := range perm {
							free[r] = uint64(1000 * (i + 1))
						}
						if rng.Intn(2) == 0 && nroots > 1 { // equal free space elsewhere
							free[perm[0]] = free[perm[nroots-1]]
						}
						faulty[perm[nroots-1]] = true
					case "all-faulty":
						for i, r := range perm {
							free[r] = uint64(1000 * (i + 1))
							faulty[r] = true
						}
					default:
						for i, r := range perm {
							free[r] = uint64(1000 * (i + 1))
						}
						faulty[perm[0]], faulty[perm[1]] = true, true
					}
					verif.SetDiskFree(func(root string) (uint64, bool) {
						for i, r := range roots {
							if filepath.Clean(r) == filepath.Clean(root) {
								return free[i], true
							}
						}
						return 0, false
					})
					var mu sync.Mutex
					writes := map[string]int{}
					var attempted []int
					firedOn := map[int]bool{}
					fault := func(path string, p []byte) (int, error, bool) {
						mu.Lock()
						defer mu.Unlock()
						ri := rootOf(roots, path)
						if writes[path] == 0 {
							attempted = append(attempted, ri)
						}
						writes[path]++
						if faulty[ri] && writes[path] == k {
							firedOn[ri] = true
							j := partial
							if j > len(p) {
								j = len(p) / 2
							}
							return j, syscall.ENOSPC, true
						}
						if faulty[ri] && writes[path] > k {
							return 0, syscall.ENOSPC, true
						}
						return 0, nil, false
					}
					key := fmt.Sprintf("k%d", plans%3)
					hadPrev := plans%2 == 0
					var prev []byte
					verif.SetWriteFault(nil)
					if hadPrev {
						prev = seqrun.Content(fmt.Sprintf("c%d-p%d", idx, plans), 64)
						env.DB.Set(ctxBg, key, prev)
					} else {
						env.DB.Delete(ctxBg, key)
					}
					verif.SetWriteFault(fault)
					src := seqrun.Content(fmt.Sprintf("c%d-s%d", idx, plans), l)
					var allowed [][]byte
					if hadPrev {
						allowed = [][]byte{prev}
					}
					allowed = append(allowed, src)
					pl := startPoller(env.DB, key, allowed, !hadPrev)
					werr := doWrite(env.DB, ctxBg, api, key, c10Source(src), src)
					bad := pl.finish()
					verif.SetWriteFault(nil)
					mu.Lock()
					att := append([]int(nil), attempted...)
					anyFired := len(firedOn) > 0
					mu.Unlock()
					plan := map[string]any{"mode": modeName(mode), "api": api, "fault": "enospc", "len": l, "kth_write": k, "partial_bytes": partial, "roots": nroots, "pattern": pat, "free_by_root": free, "faulty_roots": fmt.Sprint(faulty), "roots_attempted": att, "had_previous": hadPrev, "seed": seed}
					// expectation
					var want *bool
					yes, no := true, false
					switch pat {
					case "faulty-least-free", "two-faulty-one-healthy-most-free":
						want = &yes // a healthy root with more free space than every faulty one exists
					case "all-faulty":
						want = &no
					case "faulty-most-free":
						if anyFired {
							want = &no // the root with the most reported space ran out: no root has room
						} else {
							want = &yes
						}
					}
					cls := refmodel.ErrClass("")
					if want == &no {
						cls = refmodel.NoFreeSpace
					}
					c.Evals++
					if !x.judge(plan, key, werr, src, prev, hadPrev, want, cls, bad) {
						return c
					}
					c.AddDistinct(fmt.Sprintf("%s/%s/enospc/partial=%v/%s/fired=%v/ok=%v", modeName(mode), api, partial > 0, pat, anyFired, werr == nil))
					c.Count("plans_fault_fired", b2i(anyFired))
					c.Count("plans_continued_on_other_root", b2i(anyFired && werr == nil))
				}
			}
		}
	}
	if idx < 1 {
		c.Sample = map[string]any{"plan": map[string]any{"fault": "ENOSPC at the k-th write, full or partial", "patterns": patterns, "roots": nroots}}
	}
	return c
}

func b2i(b bool) int64 {
	if b {
		return 1
	}
	return 0
}

func c10Grpc(tier string, seed int64, idx int, scratch string) rt.CaseResult {
	var c rt.CaseResult
	// every fourth case runs the cancellation plans on the inline client (no connection to cut)
	inlineMode := idx%4 == 3
	eo := dbx.Options{Mode: dbx.Grpc, Dir: filepath.Join(scratch, "db"), Proxy: true}
	if inlineMode {
		eo = dbx.Options{Mode: dbx.Inline, Dir: filepath.Join(scratch, "db")}
	}
	env, err := dbx.Open(eo)
	if err != nil {
		c.Violate("open-failed", err.Error(), nil)
		return c
	}
	defer env.Close()
	x := &c10Ctx{c: &c, env: env, verify: env.Direct, seed: seed}
	if inlineMode {
		x.verify = env.DB
	}
	rng := seqrun.Rng(seed, "C10g", idx)
	n := 0
	for _, l := range []int{2049, 40000, 150000, 400000} {
		for _, fault := range []string{"ctx-cancel", "tcp-cut"} {
			for _, api := range []string{"setreader", "create", "set"} {
				for _, frac := range []int{0, 1, 2, 3, 4} {
					if frac == 4 && fault != "ctx-cancel" {
						continue
					}
					if rng.Intn(tierN(tier, 3, 1)) != 0 && frac != 4 {
						continue
					}
					// off == l: the caller gives up after the source is exhausted and every Write has
					// returned, before the upload is completed (Close / the end of SetReader)
					off := []int{0, 2048, l / 2, l - 1, l}[frac]
					if fault == "tcp-cut" && off > l-64 {
						// the cut must come before the last content byte can have left the client:
						// once the server has the whole upload a lost reply is indistinguishable
						// from a failed write (no client can tell), so that is not a plan
						off = l - 64
					}
					if fault == "ctx-cancel" && api == "set" {
						continue // Set has no hook to cancel mid-way: covered by setreader
					}
					if inlineMode && fault == "tcp-cut" {
						continue
					}
					rt.Beat()
					n++
					key := fmt.Sprintf("k%d", n%3)
					hadPrev := n%2 == 0
					var prev []byte
					if hadPrev {
						prev = seqrun.Content(fmt.Sprintf("c%d-p%d", idx, n), 64)
						x.verify.Set(ctxBg, key, prev)
					} else {
						x.verify.Delete(ctxBg, key)
					}
					src := seqrun.Content(fmt.Sprintf("c%d-s%d", idx, n), l)
					ctx, cancel := context.WithCancel(ctxBg)
					fr := &faultReader{data: src, off: off}
					switch fault {
					case "ctx-cancel":
						fr.onOffset = cancel
					case "tcp-cut":
						fr.off = len(src)
						env.CutAfter(int64(off) + 1) // client->server bytes of any kind, so fewer than off content bytes arrive
					}
					var allowed [][]byte
					if hadPrev {
						allowed = [][]byte{prev}
					}
					allowed = append(allowed, src)
					pl := startPoller(x.verify, key, allowed, !hadPrev)
					werr := doWrite(env.DB, ctx, api, key, fr, src)
					bad := pl.finish()
					cancel()
					fired := true
					if fault == "tcp-cut" {
						fired = env.CutFired()
					}
					plan := map[string]any{"mode": modeName(env.Opt.Mode), "api": api, "fault": fault, "len": l, "offset": off, "had_previous": hadPrev, "cut_fired": fired, "seed": seed}
					c.Evals++
					// an error must leave no trace; success must be complete (a cut late in the stream may let the write finish)
					if !x.judge(plan, key, werr, src, prev, hadPrev, nil, "", bad) {
						return c
					}
					c.AddDistinct(fmt.Sprintf("%s/%s/%s/off=%s/prev=%v/ok=%v", modeName(env.Opt.Mode), api, fault, offsetClass(off, l), hadPrev, werr == nil))
					c.Count("faulty_uploads_that_failed", b2i(werr != nil))
				}
			}
		}
	}
	if idx < 1 {
		c.Sample = map[string]any{"plan": map[string]any{"faults": []string{"context cancelled after p bytes consumed", "TCP connection cut after p request bytes"}}}
	}
	return c
}

// c10Tmpfs: a real 100 KiB tmpfs root: real ENOSPC, real partial writes, no write hook.
func c10Tmpfs(tier string, seed int64, idx int, scratch string) rt.CaseResult {
	var c rt.CaseResult
	small := filepath.Join(scratch, "small")
	big := filepath.Join(scratch, "big")
	os.MkdirAll(small, 0o755)
	os.MkdirAll(big, 0o755)
	if out, err := exec.Command("mount", "-t", "tmpfs", "-o", "size=100k", "tmpfs", small).CombinedOutput(); err != nil {
		c.Evals++
		c.AddDistinct("tmpfs-mount-not-permitted")
		c.AddDistinct("tmpfs-skipped")
		c.Count("tmpfs_skipped", 1)
		c.Sample = map[string]any{"tmpfs": "mount not permitted: " + strings.TrimSpace(string(out))}
		return c
	}
	defer exec.Command("umount", "-l", small).Run()
	second := idx%2 == 0
	roots := []string{small}
	if second {
		// the second root reports more free space (through the hook; it is a normal directory)
		roots = append(roots, big)
	}
	env, err := dbx.Open(dbx.Options{Mode: dbx.Inline, Dir: filepath.Join(scratch, "dbdir"), RootPaths: roots})
	if err != nil {
		c.Violate("open-failed", err.Error(), nil)
		return c
	}
	defer env.Close()
	defer verif.SetDiskFree(nil)
	verif.SetDiskFree(func(root string) (uint64, bool) {
		if filepath.Clean(root) == filepath.Clean(big) {
			return 1 << 40, true
		}
		return 0, false // the tmpfs reports its real free space
	})
	x := &c10Ctx{c: &c, env: env, verify: env.DB, seed: seed}
	tr := conc.NewTracer(true)
	tr.Install()
	defer conc.Uninstall()
	for n, l := range []int{30000, 150000, 60000, 150001, 99000, 200000} {
		for _, api := range []string{"setreader", "create", "set"} {
			rt.Beat()
			key := fmt.Sprintf("k%d", n%2)
			prev, gerr := env.DB.Get(ctxBg, key)
			hadPrev := gerr == nil
			src := seqrun.Content(fmt.Sprintf("c%d-%d-%s", idx, n, api), l)
			werr := doWrite(env.DB, ctxBg, api, key, c10Source(src), src)
			plan := map[string]any{"mode": "inline", "api": api, "fault": "real-tmpfs-enospc", "len": l, "second_root_with_more_space": second, "had_previous": hadPrev, "seed": seed}
			var want *bool
			yes := true
			if second {
				want = &yes
			}
			cls := refmodel.ErrClass("")
			if werr != nil {
				cls = refmodel.NoFreeSpace
			}
			c.Evals++
			if !x.judge(plan, key, werr, src, prev, hadPrev, want, cls, nil) {
				return c
			}
			c.AddDistinct(fmt.Sprintf("tmpfs/%s/second=%v/len=%d/ok=%v", api, second, l, werr == nil))
			c.Count("tmpfs_writes_failed_with_ErrNoFreeSpace", b2i(werr != nil))
		}
	}
	c.Sample = map[string]any{"tmpfs": "100 KiB root mounted", "second_root": second}
	return c
}

// c10GrpcCut: connection loss while the upload stream is being set up. gRPC re-creates a
// stream that the server has not processed and replays what the client has sent so far; a
// client that answers a failed send by completing the stream gets "OK" for a prefix. The
// window is a race inside the transport, so the plan is repeated many times per case.
func c10GrpcCut(tier string, seed int64, idx int, scratch string) rt.CaseResult {
	var c rt.CaseResult
	rt.SetWatchdogLimit(90 * time.Second)
	env, err := dbx.Open(dbx.Options{Mode: dbx.Grpc, Dir: filepath.Join(scratch, "db"), Proxy: true})
	if err != nil {
		c.Violate("open-failed", err.Error(), nil)
		return c
	}
	defer env.Close()
	x := &c10Ctx{c: &c, env: env, verify: env.Direct, seed: seed}
	rng := seqrun.Rng(seed, "C10gc", idx)
	iters := tierN(tier, 360, 1500)
	for n := 0; n < iters; n++ {
		rt.Beat()
		api := []string{"create", "setreader", "set"}[n%3]
		key := fmt.Sprintf("k%d", n%2)
		hadPrev := n%4 != 3
		var prev []byte
		if hadPrev {
			prev = seqrun.Content(fmt.Sprintf("gc%d-p%d", idx, n), 64)
			if err := x.verify.Set(ctxBg, key, prev); err != nil {
				c.Violate("setup-write-failed", err.Error(), nil)
				return c
			}
		} else {
			x.verify.Delete(ctxBg, key)
		}
		l := []int{60000, 200000, 400000}[rng.Intn(3)]
		src := seqrun.Content(fmt.Sprintf("gc%d-s%d", idx, n), l)
		ctx, cancel := context.WithCancel(ctxBg)
		fr := &faultReader{data: src, off: len(src)}
		cut := []string{"first-byte", "first-bytes", "close-all", "cancel-at-end", "cancel-near-end"}[(n/3)%5]
		if cut[:6] == "cancel" {
			// the caller gives up when (almost) everything has been written: the completion of
			// the upload races with the cancellation reaching the transport
			l = []int{5000, 2049, 9000, 20000}[rng.Intn(4)]
			src = seqrun.Content(fmt.Sprintf("gc%d-s%d", idx, n), l)
			fr = &faultReader{data: src, off: l, onOffset: cancel}
			if cut == "cancel-near-end" {
				fr.off = l - 1 - rng.Intn(2048)
			}
			if api == "set" {
				api = "create"
			}
		}
		if cut == "close-all" && api == "set" {
			api = "setreader" // Set takes no source that could be held back
		}
		var rd io.Reader = fr
		var cwg sync.WaitGroup
		switch cut {
		case "cancel-at-end", "cancel-near-end":
		case "first-byte":
			env.CutAfter(1)
		case "first-bytes":
			env.CutAfter(int64(2 + rng.Intn(600)))
		default:
			// the last piece of the source is held back until the connections are closed: once the
			// server has the whole upload, a lost reply cannot be told from a failed write
			d := time.Duration(rng.Intn(400)) * time.Microsecond
			done := make(chan struct{})
			rd = &heldReader{r: fr, hold: l - 2048, release: done}
			cwg.Add(1)
			go func() { defer cwg.Done(); time.Sleep(d); env.CutNow(); close(done) }()
		}
		var allowed [][]byte
		if hadPrev {
			allowed = [][]byte{prev}
		}
		allowed = append(allowed, src)
		pl := startPoller(x.verify, key, allowed, !hadPrev)
		werr := doWrite(env.DB, ctx, api, key, rd, src)
		bad := pl.finish()
		cancel()
		cwg.Wait()
		fired := env.CutFired()
		fault := "tcp-cut"
		if cut[:6] == "cancel" {
			fault = "ctx-cancel"
		}
		plan := map[string]any{"mode": "grpc", "api": api, "fault": fault, "cut": cut, "len": l, "had_previous": hadPrev, "cut_fired": fired, "iteration": n, "seed": seed}
		c.Evals++
		if !x.judge(plan, key, werr, src, prev, hadPrev, nil, "", bad) {
			return c
		}
		c.AddDistinct(fmt.Sprintf("grpccut/%s/%s/prev=%v/ok=%v", api, cut, hadPrev, werr == nil))
		c.Count("stream_setup_cuts", 1)
		c.Count("stream_setup_cuts_that_failed_the_write", b2i(werr != nil))
	}
	if idx < 1 {
		c.Sample = map[string]any{"plan": map[string]any{"cuts": []string{"first request byte", "first 2-600 request bytes", "all connections closed 0-400 us after the call started", "context cancelled when the source is exhausted, before the upload is completed", "context cancelled 1-2048 bytes before the end"}, "iterations": iters}}
	}
	return c
}

// heldReader passes the first hold bytes through and delivers the rest only after release is closed.
type heldReader struct {
	r       io.Reader
	hold    int
	n       int
	release chan struct{}
}

func (h *heldReader) Read(p []byte) (int, error) {
	if h.n >= h.hold {
		<-h.release
	} else if len(p) > h.hold-h.n {
		p = p[:h.hold-h.n]
	}
	n, err := h.r.Read(p)
	h.n += n
	return n, err
}

// c10OpFault: a directory or a content file cannot be created (one injected failure of mkdir /
// create at a chosen moment: the first write into fresh storage, the write that has to replace
// a full directory, an ordinary write). The write may fail or go elsewhere, by the usual
// oracle; and the failure must not outlive the fault: the writes that follow, without any
// fault, must succeed and store completely.
func c10OpFault(tier string, seed int64, idx int, scratch string) rt.CaseResult {
	var c rt.CaseResult
	rng := seqrun.Rng(seed, "C10of", idx)
	nroots := 1 + idx%2
	env, err := dbx.Open(dbx.Options{Mode: dbx.Inline, Dir: filepath.Join(scratch, "db"), Roots: nroots, MaxDirCount: 100, MaxDirExplicit: true})
	if err != nil {
		c.Violate("open-failed", err.Error(), nil)
		return c
	}
	defer env.Close()
	defer verif.SetOpFault(nil)
	x := &c10Ctx{c: &c, env: env, verify: env.DB, seed: seed}
	var arm atomic.Value // string: the operation to fail once
	var fired atomic.Int64
	verif.SetOpFault(func(op, path string) error {
		if a, _ := arm.Load().(string); a == op {
			arm.Store("")
			fired.Add(1)
			return fmt.Errorf("injected %s failure: %w", op, syscall.EIO)
		}
		return nil
	})
	n := 0
	write := func(fault, moment string) bool {
		n++
		api := []string{"set", "setreader", "create"}[n%3]
		key := fmt.Sprintf("k%d", n%4)
		prev, gerr := env.DB.Get(ctxBg, key)
		hadPrev := gerr == nil
		src := seqrun.Content(fmt.Sprintf("of%d-%d", idx, n), []int{10, 3000, 70000}[rng.Intn(3)])
		arm.Store(fault)
		before := fired.Load()
		werr := doWrite(env.DB, ctxBg, api, key, &faultReader{data: src, off: len(src)}, src)
		arm.Store("")
		didFire := fired.Load() != before
		plan := map[string]any{"mode": "inline", "api": api, "fault": "op-" + fault, "moment": moment, "fault_fired": didFire, "roots": nroots, "write_number": n, "seed": seed}
		if fault == "" {
			plan["fault"] = "none-after-op-fault"
		}
		c.Evals++
		if fault == "" && werr != nil {
			c.Violate("write-fails-after-an-earlier-fault mode=inline api="+api, fmt.Sprintf("write %d has no fault of its own but failed: %v (an earlier injected mkdir/create failure is still in effect)", n, werr), plan)
			return false
		}
		if !x.judge(plan, key, werr, src, prev, hadPrev, nil, "", nil) {
			return false
		}
		if fault != "" {
			c.AddDistinct(fmt.Sprintf("opfault/%s/%s/roots=%d/fired=%v/ok=%v", fault, moment, nroots, didFire, werr == nil))
		}
		return true
	}
	// the first write into fresh storage has to create the directories
	if !write("os.mkdirall", "fresh-storage") {
		return c
	}
	for i := 0; i < 3; i++ {
		if !write("", "") {
			return c
		}
	}
	// fill up: filler keys so that a directory reaches its limit, then the write that replaces it
	for round := 0; round < 2; round++ {
		for i := 0; i < 100*nroots; i++ {
			if err := env.DB.Set(ctxBg, fmt.Sprintf("fill%d-%d", round, i), []byte{1}); err != nil {
				c.Violate("write-fails-after-an-earlier-fault mode=inline api=set", fmt.Sprintf("filler write failed: %v", err), map[string]any{"seed": seed, "case": idx})
				return c
			}
		}
		if !write("os.mkdirall", "directory-replacement") {
			return c
		}
		for i := 0; i < 4; i++ {
			if !write("", "") {
				return c
			}
		}
		if !write("os.create", "content-file") {
			return c
		}
		for i := 0; i < 3; i++ {
			if !write("", "") {
				return c
			}
		}
	}
	c.Count("op_faults_fired", fired.Load())
	if idx < 1 {
		c.Sample = map[string]any{"role": "opfault", "faults_fired": fired.Load()}
	}
	return c
}

// c10WriteErr: the k-th write of a content file fails with an error that is not "no space".
func c10WriteErr(tier string, seed int64, idx int, scratch string) rt.CaseResult {
	var c rt.CaseResult
	rng := seqrun.Rng(seed, "C10w", idx)
	nroots := 1 + idx%3
	mode := dbx.Inline
	if idx%4 == 3 {
		mode = dbx.Grpc
	}
	env, err := dbx.Open(dbx.Options{Mode: mode, Dir: filepath.Join(scratch, "db"), Roots: nroots})
	if err != nil {
		c.Violate("open-failed", err.Error(), nil)
		return c
	}
	defer env.Close()
	defer verif.SetWriteFault(nil)
	x := &c10Ctx{c: &c, env: env, verify: env.DB, seed: seed}
	errs := []struct {
		name string
		e    syscall.Errno
	}{{"EIO", syscall.EIO}, {"EFBIG", syscall.EFBIG}, {"EDQUOT", syscall.EDQUOT}, {"EROFS", syscall.EROFS}}
	plans := 0
	for _, l := range []int{1, 2048, 40000, 70000, 150000, 300000} {
		for _, partial := range []int{0, 1, 4096, 30000} {
			for _, api := range []string{"set", "setreader", "create"} {
				if rng.Intn(tierN(tier, 3, 1)) != 0 {
					continue
				}
				rt.Beat()
				plans++
				ek := errs[rng.Intn(len(errs))]
				chunks := (l + 32767) / 32768
				k := 1 + rng.Intn(chunks)
				if partial >= l || (k == chunks && partial >= l-(chunks-1)*32768) {
					partial = 0
				}
				once := rng.Intn(2) == 0 // the fault hits one file only / every file written by this call
				var mu sync.Mutex
				writes := map[string]int{}
				fired := 0
				fault := func(path string, p []byte) (int, error, bool) {
					mu.Lock()
					defer mu.Unlock()
					writes[path]++
					if writes[path] == k && (!once || fired == 0) {
						fired++
						j := partial
						if j > len(p) {
							j = len(p) / 2
						}
						return j, &os.PathError{Op: "write", Path: path, Err: ek.e}, true
					}
					return 0, nil, false
				}
				key := fmt.Sprintf("k%d", plans%3)
				hadPrev := plans%2 == 0
				var prev []byte
				verif.SetWriteFault(nil)
				if hadPrev {
					prev = seqrun.Content(fmt.Sprintf("w%d-p%d", idx, plans), 64)
					env.DB.Set(ctxBg, key, prev)
				} else {
					env.DB.Delete(ctxBg, key)
				}
				verif.SetWriteFault(fault)
				src := seqrun.Content(fmt.Sprintf("w%d-s%d", idx, plans), l)
				var allowed [][]byte
				if hadPrev {
					allowed = [][]byte{prev}
				}
				allowed = append(allowed, src)
				pl := startPoller(env.DB, key, allowed, !hadPrev)
				werr := doWrite(env.DB, ctxBg, api, key, c10Source(src), src)
				bad := pl.finish()
				verif.SetWriteFault(nil)
				mu.Lock()
				nf := fired
				mu.Unlock()
				plan := map[string]any{"mode": modeName(mode), "api": api, "fault": "write-error-" + ek.name, "len": l, "kth_write": k, "partial_bytes": partial, "roots": nroots, "once": once, "fired": nf, "had_previous": hadPrev, "seed": seed}
				c.Evals++
				if !x.judge(plan, key, werr, src, prev, hadPrev, nil, "", bad) {
					return c
				}
				// the store must be usable afterwards
				after := seqrun.Content(fmt.Sprintf("w%d-a%d", idx, plans), 100)
				if err := env.DB.Set(ctxBg, key, after); err != nil {
					c.Violate("write-fails-after-the-fault-is-gone fault=write-error", "a Set without any fault failed after an earlier write had hit "+ek.name+": "+err.Error(), plan)
					return c
				}
				if b, err := env.DB.Get(ctxBg, key); err != nil || !bytes.Equal(b, after) {
					c.Violate("read-wrong-after-the-fault-is-gone fault=write-error", "the value written after the fault is not what is read", plan)
					return c
				}
				c.AddDistinct(fmt.Sprintf("%s/%s/write-error/%s/partial=%v/once=%v/ok=%v", modeName(mode), api, ek.name, partial > 0, once, werr == nil))
				c.Count("plans_fault_fired", b2i(nf > 0))
			}
		}
	}
	if idx < 1 {
		c.Sample = map[string]any{"plan": map[string]any{"fault": "EIO/EFBIG/EDQUOT/EROFS at the k-th write, nothing or part of the chunk written", "roots": nroots}}
	}
	return c
}

// metaFault arms a fault function that fails the j-th write to the metadata store and reports
// whether it fired.
func armMetaFault(j int, ops map[string]bool) (fired func() bool) {
	var mu sync.Mutex
	n, hit := 0, false
	verif.SetOpFault(func(op, path string) error {
		if !ops[op] {
			return nil
		}
		mu.Lock()
		defer mu.Unlock()
		n++
		if n == j {
			hit = true
			return fmt.Errorf("injected failure of metadata write %d (%s %q)", j, op, firstWords(path, 1))
		}
		return nil
	})
	return func() bool { mu.Lock(); defer mu.Unlock(); return hit }
}

var metaWriteOps = map[string]bool{"badger.set": true, "badger.txn": true, "badger.txn.set": true, "badger.txn.delete": true}

// c10MetaFault: the j-th metadata write of one autocommit write fails.
func c10MetaFault(tier string, seed int64, idx int, scratch string) rt.CaseResult {
	var c rt.CaseResult
	rng := seqrun.Rng(seed, "C10m", idx)
	mode := dbx.Inline
	if idx%3 == 2 {
		mode = dbx.Grpc
	}
	env, err := dbx.Open(dbx.Options{Mode: mode, Dir: filepath.Join(scratch, "db"), Roots: 1 + idx%2})
	if err != nil {
		c.Violate("open-failed", err.Error(), nil)
		return c
	}
	defer func() { env.Close() }()
	defer verif.SetOpFault(nil)
	x := &c10Ctx{c: &c, env: env, verify: env.DB, seed: seed}
	ru, err := env.DB.Begin(ctxBg, fs_db.IsoLevelReadUncommitted)
	if err != nil {
		c.Violate("begin-failed", err.Error(), nil)
		return c
	}
	expect := map[string][]byte{} // key -> value the key must have (absent: not found)
	sameAs := func(b []byte, gerr error, want []byte, has bool) bool {
		if !has {
			return seqrun.Class(gerr) == refmodel.NotFound
		}
		return gerr == nil && bytes.Equal(b, want)
	}
	plans := 0
	for _, api := range []string{"set", "setreader", "create", "delete"} {
		for _, hadPrev := range []bool{false, true} {
			for j := 1; j <= 8; j++ {
				rt.Beat()
				plans++
				key := fmt.Sprintf("m%d", plans%4)
				verif.SetOpFault(nil)
				var prev []byte
				if hadPrev {
					prev = seqrun.Content(fmt.Sprintf("m%d-p%d", idx, plans), 40+rng.Intn(3000))
					if err := env.DB.Set(ctxBg, key, prev); err != nil {
						c.Violate("setup-write-failed", err.Error(), nil)
						return c
					}
					expect[key] = prev
				} else {
					env.DB.Delete(ctxBg, key)
					delete(expect, key)
				}
				l := []int{1, 2048, 40000, 70000}[rng.Intn(4)]
				src := seqrun.Content(fmt.Sprintf("m%d-s%d", idx, plans), l)
				var allowed [][]byte
				if hadPrev {
					allowed = [][]byte{prev}
				}
				if api != "delete" {
					allowed = append(allowed, src)
				}
				pl := startPoller(env.DB, key, allowed, !hadPrev || api == "delete")
				fired := armMetaFault(j, metaWriteOps)
				var werr error
				if api == "delete" {
					werr = env.DB.Delete(ctxBg, key)
				} else {
					werr = doWrite(env.DB, ctxBg, api, key, c10Source(src), src)
				}
				verif.SetOpFault(nil)
				bad := pl.finish()
				if !fired() {
					// the call issues fewer than j metadata writes: it ran without a fault
					if werr != nil {
						c.Violate("write-failed-without-fault role=metafault api="+api, werr.Error(), map[string]any{"api": api, "j": j})
						return c
					}
					if api == "delete" {
						delete(expect, key)
					} else {
						expect[key] = src
					}
					break
				}
				plan := map[string]any{"mode": modeName(mode), "api": api, "fault": "metadata-write", "jth_metadata_write": j, "len": l, "had_previous": hadPrev, "seed": seed, "case": idx}
				c.Evals++
				c.Count("plans_fault_fired", 1)
				if api == "delete" {
					b, gerr := env.DB.Get(ctxBg, key)
					switch {
					case bad != nil:
						c.Violate("partial-or-foreign-content-visible-during-write mode="+modeName(mode)+" api=delete fault=metadata-write", *bad, plan)
						return c
					case werr != nil && !sameAs(b, gerr, prev, hadPrev):
						c.Violate("failed-write-left-trace mode="+modeName(mode)+" api=delete fault=metadata-write", fmt.Sprintf("Delete failed (%v) but the key now reads %s (%v)", werr, seqrun.Describe(b), gerr), plan)
						return c
					case werr == nil && seqrun.Class(gerr) != refmodel.NotFound:
						c.Violate("successful-write-incomplete mode="+modeName(mode)+" api=delete fault=metadata-write", fmt.Sprintf("Delete returned nil but the key reads %s (%v)", seqrun.Describe(b), gerr), plan)
						return c
					}
					if werr == nil {
						delete(expect, key)
					}
				} else {
					if !x.judge(plan, key, werr, src, prev, hadPrev, nil, "", bad) {
						return c
					}
					if werr == nil {
						expect[key] = src
					}
				}
				// the ReadUncommitted transaction and GetKeys see the same as the autocommit reader
				want, has := expect[key]
				if b, gerr := ru.Get(ctxBg, key); !sameAs(b, gerr, want, has) {
					c.Violate("failed-write-left-trace reader=read-uncommitted mode="+modeName(mode)+" api="+api+" fault=metadata-write", fmt.Sprintf("after the call (%v) a ReadUncommitted transaction reads %s (%v)", werr, seqrun.Describe(b), gerr), plan)
					return c
				}
				keys, kerr := env.DB.GetKeys(ctxBg)
				listed := false
				for _, k := range keys {
					listed = listed || k == key
				}
				if kerr != nil || listed != has {
					c.Violate("failed-write-left-trace reader=getkeys mode="+modeName(mode)+" api="+api+" fault=metadata-write", fmt.Sprintf("after the call (%v) GetKeys lists the key: %v, it has a value: %v (%v)", werr, listed, has, kerr), plan)
					return c
				}
				c.AddDistinct(fmt.Sprintf("%s/%s/metadata-write/j=%d/prev=%v/ok=%v", modeName(mode), api, j, hadPrev, werr == nil))
			}
		}
	}
	ru.Rollback(ctxBg)
	if err := env.Reopen(); err != nil {
		c.Violate("reopen-failed role=metafault", err.Error(), nil)
		return c
	}
	for i := 0; i < 4; i++ {
		key := fmt.Sprintf("m%d", i)
		want, has := expect[key]
		if b, gerr := env.DB.Get(ctxBg, key); !sameAs(b, gerr, want, has) {
			c.Violate("failed-write-left-trace after-reopen fault=metadata-write", fmt.Sprintf("after the reopen %q reads %s (%v), before it read %s (has a value: %v)", key, seqrun.Describe(b), gerr, seqrun.Describe(want), has), map[string]any{"seed": seed, "case": idx})
			return c
		}
	}
	if idx < 1 {
		c.Sample = map[string]any{"plan": map[string]any{"fault": "the j-th metadata write of the call fails", "apis": "set setreader create delete"}}
	}
	return c
}
