package props

import (
	"bytes"
	"context"
	"fmt"
	"github.com/glebziz/fs_db"
	"os"
	"path/filepath"
	"sort"
	"strings"
	"sync"
	"sync/atomic"
	"time"

	"github.com/glebziz/fs_db/pkg/verif"

	"verifharness/internal/dbx"
	"verifharness/internal/refmodel"
	"verifharness/internal/rt"
	"verifharness/internal/seqrun"
)

func init() {
	p := Registry["C05"]
	p.Roles["bulk"] = Role{N: func(t string) int { return tierN(t, 4, 32) }, Case: c05Bulk}
	p.Rule += " Role bulk: databases with 2049-9000 version records (more than any batch size or worker split of the loading code), among them overwritten, deleted and transaction-committed keys, reopened (inline and through the server application), every key and GetKeys compared before and after each reopen, then a tenth of the keys overwritten and deleted and the database reopened again."
}

// c05Bulk: state with thousands of records survives reopening.
func c05Bulk(tier string, seed int64, idx int, scratch string) rt.CaseResult {
	var c rt.CaseResult
	rng := seqrun.Rng(seed, "C05b", idx)
	mode := dbx.Inline
	if idx%4 == 3 {
		mode = dbx.Grpc
	}
	n := []int{2049, 2051, 2303, 4099}[idx%4] + rng.Intn(7)
	if tier == "thorough" && idx%8 >= 4 {
		n = 5000 + rng.Intn(4000)
	}
	env, err := dbx.Open(dbx.Options{Mode: mode, Dir: filepath.Join(scratch, "db"), Roots: 1 + idx%2})
	if err != nil {
		c.Violate("open-failed", err.Error(), nil)
		return c
	}
	defer func() { env.Close() }()
	expect := map[string][]byte{}
	replay := map[string]any{"seed": seed, "case": idx, "mode": modeName(mode), "keys": n}
	set := func(k string, v []byte) bool {
		if err := env.DB.Set(ctxBg, k, v); err != nil {
			c.Violate("write-failed role=bulk", err.Error(), replay)
			return false
		}
		expect[k] = v
		return true
	}
	for i := 0; i < n; i++ {
		if i%256 == 0 {
			rt.Beat()
		}
		if !set(fmt.Sprintf("b%05d", i), seqrun.Content(fmt.Sprintf("b%d-%d", idx, i), 6+i%9)) {
			return c
		}
	}
	// keys of one and of two megabytes and more: their records are the largest the metadata store
	// holds (it keeps values of this size apart from the small ones)
	for i, kl := range []int{1 << 20, 1<<20 + 4000, 2<<20 + 77} {
		if mode == dbx.Grpc && i == 2 {
			continue
		}
		if !set(strings.Repeat(fmt.Sprintf("%c", 'A'+i), kl), seqrun.Content(fmt.Sprintf("b%d-huge%d", idx, i), 30)) {
			return c
		}
	}
	// pairs of keys that collide under common 32-bit hash functions (each must stay its own key)
	for _, pair := range collidingKeyPairs(seed + int64(idx)) {
		if !set(pair.a, seqrun.Content("collide-a-"+pair.hash, 20)) || !set(pair.b, seqrun.Content("collide-b-"+pair.hash, 24)) {
			return c
		}
	}
	// a transaction that commits a few dozen keys, overwrites and deletions (their old records stay
	// until the collector runs, which it does not here)
	tx, err := env.DB.Begin(ctxBg, 1)
	if err != nil {
		c.Violate("begin-failed", err.Error(), replay)
		return c
	}
	// one commit of more than a thousand keys (every other case: a few dozen)
	ntx := 40
	if idx%2 == 0 {
		ntx = 1100 + rng.Intn(700)
	}
	for i := 0; i < ntx; i++ {
		k := fmt.Sprintf("b%05d", rng.Intn(n))
		if i%3 == 0 {
			k = fmt.Sprintf("t%05d", i) // keys that exist only through this commit
		}
		v := seqrun.Content(fmt.Sprintf("b%d-tx%d", idx, i), 12)
		if err := tx.Set(ctxBg, k, v); err != nil {
			c.Violate("write-failed role=bulk", err.Error(), replay)
			return c
		}
		expect[k] = v
	}
	if err := tx.Commit(ctxBg); err != nil {
		c.Violate("commit-failed role=bulk", err.Error(), replay)
		return c
	}
	verify := func(when string) bool {
		rt.Beat()
		keys, err := env.DB.GetKeys(ctxBg)
		var want []string
		for k := range expect {
			want = append(want, k)
		}
		sort.Strings(want)
		if err != nil || len(keys) != len(want) {
			missing := ""
			have := map[string]bool{}
			for _, k := range keys {
				have[k] = true
			}
			for _, k := range want {
				if !have[k] {
					missing = k
					break
				}
			}
			c.Violate("keys-wrong role=bulk "+when, fmt.Sprintf("%s: GetKeys lists %d keys (%v), %d were committed; first missing key %q", when, len(keys), err, len(want), missing), replay)
			return false
		}
		for i, k := range want {
			if keys[i] != k {
				c.Violate("keys-wrong role=bulk "+when, fmt.Sprintf("%s: GetKeys[%d] = %q, expected %q", when, i, keys[i], k), replay)
				return false
			}
			b, gerr := env.DB.Get(ctxBg, k)
			c.Evals++
			if gerr != nil || !bytes.Equal(b, expect[k]) {
				c.Violate("read-wrong-value role=bulk "+when, fmt.Sprintf("%s: %q reads %s (%v), committed value %s", when, k, seqrun.Describe(b), gerr, seqrun.Describe(expect[k])), replay)
				return false
			}
		}
		return true
	}
	if !verify("before the reopen") {
		return c
	}
	if err := env.Reopen(); err != nil {
		c.Violate("reopen-failed role=bulk", err.Error(), replay)
		return c
	}
	if !verify("after the first reopen") {
		return c
	}
	for i := 0; i < n/10; i++ {
		k := fmt.Sprintf("b%05d", rng.Intn(n))
		if i%4 == 3 {
			if err := env.DB.Delete(ctxBg, k); err != nil {
				c.Violate("write-failed role=bulk", err.Error(), replay)
				return c
			}
			delete(expect, k)
			continue
		}
		if !set(k, seqrun.Content(fmt.Sprintf("b%d-ow%d", idx, i), 10)) {
			return c
		}
	}
	if b, gerr := env.DB.Get(ctxBg, "never"); seqrun.Class(gerr) != refmodel.NotFound {
		c.Violate("read-wrong-value role=bulk", fmt.Sprintf("a never-written key reads %s (%v)", seqrun.Describe(b), gerr), replay)
		return c
	}
	for r := 0; r < 2; r++ {
		if err := env.Reopen(); err != nil {
			c.Violate("reopen-failed role=bulk", err.Error(), replay)
			return c
		}
		if !verify(fmt.Sprintf("after overwrites and reopen %d", r+2)) {
			return c
		}
	}
	if mode == dbx.Inline {
		// a context that bounds the opening only (done by the time the records are read): the
		// database opens with everything that was committed, or says that it cannot
		env.Opt.InlineCtxDone = true
		err := env.Reopen()
		env.Opt.InlineCtxDone = false
		if err != nil {
			c.Count("opens_with_done_context_refused", 1)
			if err := env.Reopen(); err != nil {
				c.Violate("reopen-failed role=bulk", err.Error(), replay)
				return c
			}
		} else if !verify("after a reopen with a context that is already done") {
			return c
		}
	}
	c.AddDistinct(fmt.Sprintf("bulk/%s/%d", modeName(mode), n/1000*1000))
	if idx == 0 {
		c.Sample = map[string]any{"keys": n, "mode": modeName(mode)}
	}
	return c
}

func init() {
	p := Registry["C05"]
	p.Roles["freshstart"] = Role{N: func(t string) int { return tierN(t, 6, 96) }, Case: c05FreshStart}
	p.Rule += " Role freshstart: the very first writes into a brand-new (and into a reopened empty) database are 2-12 autocommit Sets and commits released together by a spin barrier; every acknowledged write must be readable at once and the state must be the same after Close and Open (40-100 databases per case)."
}

// c05FreshStart: first writes into an empty database, issued simultaneously, then a reopen.
func c05FreshStart(tier string, seed int64, idx int, scratch string) rt.CaseResult {
	var c rt.CaseResult
	rng := seqrun.Rng(seed, "C05f", idx)
	for it := 0; it < tierN(tier, 40, 100) && len(c.Violations) == 0; it++ {
		rt.Beat()
		dir := filepath.Join(scratch, fmt.Sprintf("db%d", it))
		env, err := dbx.Open(dbx.Options{Mode: dbx.Inline, Dir: dir})
		if err != nil {
			c.Violate("open-failed", err.Error(), nil)
			return c
		}
		if it%3 == 2 {
			// an empty database that has been opened before
			if err := env.Reopen(); err != nil {
				c.Violate("reopen-failed role=freshstart", err.Error(), nil)
				return c
			}
		}
		n := 2 + rng.Intn(11)
		useTx := it%2 == 0
		type w struct {
			key string
			val []byte
			tx  interface {
				Commit(ctx context.Context) error
			}
			err error
		}
		ws := make([]*w, n)
		for i := range ws {
			ws[i] = &w{key: fmt.Sprintf("f%d", i), val: seqrun.Content(fmt.Sprintf("fs%d-%d-%d", idx, it, i), 10)}
			if useTx {
				tx, err := env.DB.Begin(ctxBg, verif.IsoLevel(rng.Intn(4)))
				if err != nil {
					c.Violate("begin-failed", err.Error(), nil)
					return c
				}
				// the write inside the transaction goes to the transaction's own store; the commit is
				// the first thing that reaches the committed state
				if err := tx.Set(ctxBg, ws[i].key, ws[i].val); err != nil {
					c.Violate("write-in-transaction-failed", err.Error(), nil)
					return c
				}
				ws[i].tx = tx
			}
		}
		var ready, wg sync.WaitGroup
		var goFlag atomic.Bool
		for _, x := range ws {
			wg.Add(1)
			ready.Add(1)
			go func(x *w) {
				defer wg.Done()
				ready.Done()
				for !goFlag.Load() {
				}
				if x.tx != nil {
					x.err = x.tx.Commit(ctxBg)
				} else {
					x.err = env.DB.Set(ctxBg, x.key, x.val)
				}
			}(x)
		}
		ready.Wait()
		goFlag.Store(true)
		wg.Wait()
		replay := map[string]any{"seed": seed, "case": idx, "database": it, "writers": n, "through_transactions": useTx, "reopened_empty_first": it%3 == 2}
		check := func(when string) bool {
			for _, x := range ws {
				c.Evals++
				if x.err != nil {
					c.Violate("first-write-failed role=freshstart", fmt.Sprintf("one of %d simultaneous first writes into an empty database failed: %v", n, x.err), replay)
					return false
				}
				b, gerr := env.DB.Get(ctxBg, x.key)
				if gerr != nil || !bytes.Equal(b, x.val) {
					c.Violate("acknowledged-first-write-not-readable "+when, fmt.Sprintf("%s: %d writers wrote their own key into an empty database at the same moment, all were acknowledged; %q reads %s (%v)", when, n, x.key, seqrun.Describe(b), gerr), replay)
					return false
				}
			}
			ks, kerr := env.DB.GetKeys(ctxBg)
			if kerr != nil || len(ks) != n {
				c.Violate("keys-wrong role=freshstart "+when, fmt.Sprintf("%s: GetKeys lists %d keys (%v), %d were written", when, len(ks), kerr, n), replay)
				return false
			}
			return true
		}
		ok := check("right after the writes")
		if ok {
			if err := env.Reopen(); err != nil {
				c.Violate("reopen-failed role=freshstart", err.Error(), replay)
				ok = false
			} else {
				ok = check("after Close and Open")
			}
		}
		env.Close()
		os.RemoveAll(dir)
		if ok {
			c.AddDistinct(fmt.Sprintf("freshstart/writers=%d/tx=%v/reopened-empty=%v", n, useTx, it%3 == 2))
		}
	}
	if idx == 0 {
		c.Sample = map[string]any{"scenario": "simultaneous first writes into an empty database, then a reopen"}
	}
	return c
}

func init() {
	p := Registry["C05"]
	p.Roles["serverrestart"] = Role{N: func(t string) int { return tierN(t, 4, 32) }, Case: c05ServerRestart}
	p.Rule += " Role serverrestart: the server application is stopped and started again on the same address and directories while a gRPC client keeps its connection and its handles: transactions that were open (with writes) are gone - every operation and Commit through their handles fails with ErrTxNotFound, Rollback is a no-op, nothing of them is visible; transactions that had ended stay ended; the committed state is what it was; new transactions work; a second restart changes nothing."
}

// c05ServerRestart: a restart of the server under a live client.
func c05ServerRestart(tier string, seed int64, idx int, scratch string) rt.CaseResult {
	var c rt.CaseResult
	env, err := dbx.Open(dbx.Options{Mode: dbx.Grpc, Dir: filepath.Join(scratch, "db")})
	if err != nil {
		c.Violate("open-failed", err.Error(), nil)
		return c
	}
	defer func() { env.Close() }()
	rng := seqrun.Rng(seed, "C05sr", idx)
	expect := map[string][]byte{}
	for i := 0; i < 6; i++ {
		k := fmt.Sprintf("s%d", i)
		expect[k] = seqrun.Content(fmt.Sprintf("sr%d-%d", idx, i), 20)
		env.DB.Set(ctxBg, k, expect[k])
	}
	type old struct {
		tx interface {
			Get(context.Context, string) ([]byte, error)
			GetKeys(context.Context) ([]string, error)
			Set(context.Context, string, []byte) error
			Delete(context.Context, string) error
			Commit(context.Context) error
			Rollback(context.Context) error
		}
		state string
		level int
	}
	var olds []old
	for restart := 0; restart < 2; restart++ {
		rt.Beat()
		n := 4 + rng.Intn(8)
		for i := 0; i < n; i++ {
			level := rng.Intn(4)
			tx, err := env.DB.Begin(ctxBg, verif.IsoLevel(level))
			if err != nil {
				c.Violate("begin-failed role=serverrestart", fmt.Sprintf("restart %d: %v", restart, err), nil)
				return c
			}
			state := []string{"open-with-writes", "open-idle", "committed", "rolled-back"}[rng.Intn(4)]
			switch state {
			case "open-with-writes":
				tx.Set(ctxBg, fmt.Sprintf("s%d", rng.Intn(6)), []byte("uncommitted"))
				tx.Set(ctxBg, fmt.Sprintf("only-in-open-tx-%d-%d", restart, i), []byte("uncommitted"))
				tx.Delete(ctxBg, fmt.Sprintf("s%d", rng.Intn(6)))
			case "committed":
				k := fmt.Sprintf("s%d", rng.Intn(6))
				v := seqrun.Content(fmt.Sprintf("sr%d-c%d-%d", idx, restart, i), 15)
				tx.Set(ctxBg, k, v)
				if err := tx.Commit(ctxBg); err != nil {
					c.Violate("commit-failed role=serverrestart", err.Error(), nil)
					return c
				}
				expect[k] = v
			case "rolled-back":
				tx.Set(ctxBg, fmt.Sprintf("s%d", rng.Intn(6)), []byte("rolled back"))
				tx.Rollback(ctxBg)
			}
			olds = append(olds, old{tx, state, level})
		}
		if err := env.RestartServer(); err != nil {
			c.Inconclusive = append(c.Inconclusive, "server restart: "+err.Error())
			return c
		}
		// a few new transactions first: whatever identifies a transaction must not be handed out again
		var fresh []interface {
			Get(context.Context, string) ([]byte, error)
			Rollback(context.Context) error
		}
		for i := 0; i < 12; i++ {
			var tx fs_db.Tx
			var err error
			for attempt := 0; attempt < 50; attempt++ { // the client reconnects
				tx, err = env.DB.Begin(ctxBg, verif.IsoLevel(rng.Intn(4)))
				if err == nil {
					break
				}
				time.Sleep(20 * time.Millisecond)
			}
			if err != nil {
				c.Violate("begin-failed after-server-restart", err.Error(), nil)
				return c
			}
			fresh = append(fresh, tx)
		}
		rp := map[string]any{"seed": seed, "case": idx, "restart": restart + 1}
		for i, o := range olds {
			rp["handle"], rp["state_before_the_restart"], rp["level"] = i, o.state, o.level
			_, e1 := o.tx.Get(ctxBg, "s0")
			_, e2 := o.tx.GetKeys(ctxBg)
			e3 := o.tx.Set(ctxBg, "s1", []byte("through a handle from before the restart"))
			e4 := o.tx.Delete(ctxBg, "s2")
			var e5 error
			if i%2 == 0 {
				e5 = o.tx.Commit(ctxBg)
			}
			c.Evals += 5
			for j, e := range []error{e1, e2, e3, e4, e5} {
				if j == 4 && i%2 != 0 {
					continue
				}
				if cls := seqrun.Class(e); cls != refmodel.TxNotFound {
					op := []string{"get", "getkeys", "set", "delete", "commit"}[j]
					c.Violate(fmt.Sprintf("transaction-survived-server-restart op=%s got=%s state=%s", op, cls, o.state), fmt.Sprintf("restart %d: %s through a transaction handle from before the restart (%s) gave %s instead of ErrTxNotFound", restart+1, op, o.state, cls), rp)
					return c
				}
			}
			if e := o.tx.Rollback(ctxBg); e != nil {
				c.Violate("late-rollback-not-a-no-op after-server-restart", fmt.Sprint(e), rp)
				return c
			}
		}
		for _, tx := range fresh {
			if _, e := tx.Get(ctxBg, "s0"); e != nil {
				c.Violate("live-transaction-harmed-by-dead-handle after-server-restart", fmt.Sprintf("a transaction begun after the restart fails to read after the old handles were used: %v", e), rp)
				return c
			}
			tx.Rollback(ctxBg)
		}
		keys, kerr := env.DB.GetKeys(ctxBg)
		if kerr != nil || len(keys) != len(expect) {
			c.Violate("keys-wrong after-server-restart", fmt.Sprintf("restart %d: GetKeys returns %v (%v), %d keys are committed", restart+1, keys, kerr, len(expect)), rp)
			return c
		}
		for k, v := range expect {
			if b, gerr := env.DB.Get(ctxBg, k); gerr != nil || !bytes.Equal(b, v) {
				c.Violate("read-wrong-value after-server-restart", fmt.Sprintf("restart %d: %q reads %s (%v), committed %s", restart+1, k, seqrun.Describe(b), gerr, seqrun.Describe(v)), rp)
				return c
			}
		}
		c.AddDistinct(fmt.Sprintf("serverrestart/%d", restart+1))
	}
	if idx == 0 {
		c.Sample = map[string]any{"handles_from_before_a_restart": len(olds)}
	}
	return c
}
