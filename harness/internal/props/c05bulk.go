package props

import (
	"bytes"
	"fmt"
	"path/filepath"
	"sort"

	"verifharness/internal/dbx"
	"verifharness/internal/refmodel"
	"verifharness/internal/rt"
	"verifharness/internal/seqrun"
)

func init() {
	p := Registry["C05"]
	p.Roles["bulk"] = Role{N: func(t string) int { return tierN(t, 4, 32) }, Case: c05Bulk}
	p.Rule += " Role bulk: databases with 2049-9000 version records (more than any batch size or worker split of the loading code), among them overwritten, deleted and transaction-committed keys, reopened (inline and through the server application), every key and GetKeys compared before and after each reopen, then a tenth of the keys overwritten and deleted and the database reopened again."
}

// c05Bulk: state with thousands of records survives reopening.
func c05Bulk(tier string, seed int64, idx int, scratch string) rt.CaseResult {
	var c rt.CaseResult
	rng := seqrun.Rng(seed, "C05b", idx)
	mode := dbx.Inline
	if idx%4 == 3 {
		mode = dbx.Grpc
	}
	n := []int{2049, 2051, 2303, 4099}[idx%4] + rng.Intn(7)
	if tier == "thorough" && idx%8 >= 4 {
		n = 5000 + rng.Intn(4000)
	}
	env, err := dbx.Open(dbx.Options{Mode: mode, Dir: filepath.Join(scratch, "db"), Roots: 1 + idx%2})
	if err != nil {
		c.Violate("open-failed", err.Error(), nil)
		return c
	}
	defer func() { env.Close() }()
	expect := map[string][]byte{}
	replay := map[string]any{"seed": seed, "case": idx, "mode": modeName(mode), "keys": n}
	set := func(k string, v []byte) bool {
		if err := env.DB.Set(ctxBg, k, v); err != nil {
			c.Violate("write-failed role=bulk", err.Error(), replay)
			return false
		}
		expect[k] = v
		return true
	}
	for i := 0; i < n; i++ {
		if i%256 == 0 {
			rt.Beat()
		}
		if !set(fmt.Sprintf("b%05d", i), seqrun.Content(fmt.Sprintf("b%d-%d", idx, i), 6+i%9)) {
			return c
		}
	}
	// a transaction that commits a few dozen keys, overwrites and deletions (their old records stay
	// until the collector runs, which it does not here)
	tx, err := env.DB.Begin(ctxBg, 1)
	if err != nil {
		c.Violate("begin-failed", err.Error(), replay)
		return c
	}
	for i := 0; i < 40; i++ {
		k := fmt.Sprintf("b%05d", rng.Intn(n))
		v := seqrun.Content(fmt.Sprintf("b%d-tx%d", idx, i), 12)
		if err := tx.Set(ctxBg, k, v); err != nil {
			c.Violate("write-failed role=bulk", err.Error(), replay)
			return c
		}
		expect[k] = v
	}
	if err := tx.Commit(ctxBg); err != nil {
		c.Violate("commit-failed role=bulk", err.Error(), replay)
		return c
	}
	verify := func(when string) bool {
		rt.Beat()
		keys, err := env.DB.GetKeys(ctxBg)
		var want []string
		for k := range expect {
			want = append(want, k)
		}
		sort.Strings(want)
		if err != nil || len(keys) != len(want) {
			missing := ""
			have := map[string]bool{}
			for _, k := range keys {
				have[k] = true
			}
			for _, k := range want {
				if !have[k] {
					missing = k
					break
				}
			}
			c.Violate("keys-wrong role=bulk "+when, fmt.Sprintf("%s: GetKeys lists %d keys (%v), %d were committed; first missing key %q", when, len(keys), err, len(want), missing), replay)
			return false
		}
		for i, k := range want {
			if keys[i] != k {
				c.Violate("keys-wrong role=bulk "+when, fmt.Sprintf("%s: GetKeys[%d] = %q, expected %q", when, i, keys[i], k), replay)
				return false
			}
			b, gerr := env.DB.Get(ctxBg, k)
			c.Evals++
			if gerr != nil || !bytes.Equal(b, expect[k]) {
				c.Violate("read-wrong-value role=bulk "+when, fmt.Sprintf("%s: %q reads %s (%v), committed value %s", when, k, seqrun.Describe(b), gerr, seqrun.Describe(expect[k])), replay)
				return false
			}
		}
		return true
	}
	if !verify("before the reopen") {
		return c
	}
	if err := env.Reopen(); err != nil {
		c.Violate("reopen-failed role=bulk", err.Error(), replay)
		return c
	}
	if !verify("after the first reopen") {
		return c
	}
	for i := 0; i < n/10; i++ {
		k := fmt.Sprintf("b%05d", rng.Intn(n))
		if i%4 == 3 {
			if err := env.DB.Delete(ctxBg, k); err != nil {
				c.Violate("write-failed role=bulk", err.Error(), replay)
				return c
			}
			delete(expect, k)
			continue
		}
		if !set(k, seqrun.Content(fmt.Sprintf("b%d-ow%d", idx, i), 10)) {
			return c
		}
	}
	if b, gerr := env.DB.Get(ctxBg, "never"); seqrun.Class(gerr) != refmodel.NotFound {
		c.Violate("read-wrong-value role=bulk", fmt.Sprintf("a never-written key reads %s (%v)", seqrun.Describe(b), gerr), replay)
		return c
	}
	for r := 0; r < 2; r++ {
		if err := env.Reopen(); err != nil {
			c.Violate("reopen-failed role=bulk", err.Error(), replay)
			return c
		}
		if !verify(fmt.Sprintf("after overwrites and reopen %d", r+2)) {
			return c
		}
	}
	c.AddDistinct(fmt.Sprintf("bulk/%s/%d", modeName(mode), n/1000*1000))
	if idx == 0 {
		c.Sample = map[string]any{"keys": n, "mode": modeName(mode)}
	}
	return c
}
