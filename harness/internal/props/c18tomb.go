package props

import (
	"fmt"
	"path/filepath"
	"sort"

	"github.com/glebziz/fs_db"
	"github.com/glebziz/fs_db/pkg/verif"

	"verifharness/internal/dbx"
	"verifharness/internal/refmodel"
	"verifharness/internal/rt"
	"verifharness/internal/seqrun"
)

func init() {
	p := Registry["C18"]
	p.Roles["tomb"] = Role{N: func(t string) int { return tierN(t, 48, 1200) }, Case: c18Tomb}
	p.Rule += " Role tomb (database level): per key every sequence of up to three Set/Delete before the Begin of a snapshot transaction and up to three after it (deletions as the last version before the point, re-creations after it, keys that never existed), with and without a collector pass + drain before the reads, inline and through the server: the snapshot reads exactly the state at its Begin (a deletion reads as not-found however the key fares afterwards), Get and GetKeys agree, reads repeat."
}

// c18Tomb: snapshot look-ups around deletions.
func c18Tomb(tier string, seed int64, idx int, scratch string) rt.CaseResult {
	var c rt.CaseResult
	rng := seqrun.Rng(seed, "C18t", idx)
	mode := dbx.Inline
	if idx%6 == 5 {
		mode = dbx.Grpc
	}
	env, err := dbx.Open(dbx.Options{Mode: mode, Dir: filepath.Join(scratch, "db")})
	if err != nil {
		c.Violate("open-failed", err.Error(), nil)
		return c
	}
	defer env.Close()
	// every key gets a pattern: ops before the point, ops after it ('s' set, 'd' delete)
	pats := []string{"", "s", "d", "sd", "ss", "ds", "sds", "ssd", "dsd"}
	type plan struct{ before, after string }
	nkeys := 6 + rng.Intn(6)
	plans := make([]plan, nkeys)
	for k := range plans {
		plans[k] = plan{pats[rng.Intn(len(pats))], pats[rng.Intn(len(pats))]}
	}
	// make sure the interesting shape is there: deleted before, re-created after
	plans[0] = plan{[]string{"sd", "d", "dsd"}[idx%3], []string{"s", "ss", "ds"}[idx/3%3]}
	key := func(k int) string { return fmt.Sprintf("t%d", k) }
	state := map[int]string{} // current committed value, "" = not there
	n := 0
	apply := func(k int, op byte) error {
		n++
		if op == 's' {
			v := fmt.Sprintf("c%d-%s-%d", idx, key(k), n)
			state[k] = v
			return env.DB.Set(ctxBg, key(k), []byte(v))
		}
		state[k] = ""
		return env.DB.Delete(ctxBg, key(k))
	}
	run := func(sel func(p plan) string) error {
		// interleave the keys' operations in a seeded order
		type ev struct {
			k  int
			op byte
		}
		var evs []ev
		pos := make([]int, nkeys)
		for {
			var cand []int
			for k, p := range plans {
				if pos[k] < len(sel(p)) {
					cand = append(cand, k)
				}
			}
			if len(cand) == 0 {
				break
			}
			k := cand[rng.Intn(len(cand))]
			evs = append(evs, ev{k, sel(plans[k])[pos[k]]})
			pos[k]++
		}
		for _, e := range evs {
			if err := apply(e.k, e.op); err != nil {
				return err
			}
		}
		return nil
	}
	replay := map[string]any{"seed": seed, "case": idx, "mode": modeName(mode), "plans_before_after": fmt.Sprint(plans)}
	if err := run(func(p plan) string { return p.before }); err != nil {
		c.Violate("write-failed role=tomb", err.Error(), replay)
		return c
	}
	var snaps []fs_db.Tx
	for _, lvl := range []int{2, 3} {
		tx, err := env.DB.Begin(ctxBg, verif.IsoLevel(lvl))
		if err != nil {
			c.Violate("begin-failed", err.Error(), replay)
			return c
		}
		snaps = append(snaps, tx)
	}
	at := map[int]string{}
	for k := range plans {
		at[k] = state[k]
	}
	if err := run(func(p plan) string { return p.after }); err != nil {
		c.Violate("write-failed role=tomb", err.Error(), replay)
		return c
	}
	collect := idx%2 == 1
	if collect {
		if err := env.Collect(); err != nil {
			c.Violate("collector-error", err.Error(), replay)
			return c
		}
		if err := env.Drain(); err != nil {
			c.Violate("drain-failed", err.Error(), replay)
			return c
		}
	}
	replay["collector_pass_before_the_reads"] = collect
	for si, tx := range snaps {
		for pass := 0; pass < 2; pass++ {
			var wantKeys []string
			for k := range plans {
				c.Evals++
				b, gerr := tx.Get(ctxBg, key(k))
				got := string(b)
				if gerr != nil {
					got = "<" + string(seqrun.Class(gerr)) + ">"
				}
				want := at[k]
				if want == "" {
					want = "<" + string(refmodel.NotFound) + ">"
				} else {
					wantKeys = append(wantKeys, key(k))
				}
				if got != want {
					c.Violate("snapshot-lookup-wrong around-deletion", fmt.Sprintf("snapshot %d, pass %d: %s (before the point: %q, after it: %q) reads %s, the state at the point was %s", si, pass, key(k), plans[k].before, plans[k].after, got, want), replay)
					return c
				}
			}
			sort.Strings(wantKeys)
			ks, kerr := tx.GetKeys(ctxBg)
			if kerr != nil || fmt.Sprint(ks) != fmt.Sprint(wantKeys) {
				c.Violate("snapshot-keys-wrong around-deletion", fmt.Sprintf("snapshot %d, pass %d: GetKeys returns %v (%v), the keys with a value at the point were %v", si, pass, ks, kerr, wantKeys), replay)
				return c
			}
		}
	}
	for k := range plans {
		c.AddDistinct(fmt.Sprintf("tomb/%s>%s/collect=%v", plans[k].before, plans[k].after, collect))
	}
	for _, tx := range snaps {
		tx.Rollback(ctxBg)
	}
	if idx == 0 {
		c.Sample = map[string]any{"plans_before_after_the_point": fmt.Sprint(plans)}
	}
	return c
}
