package props

import (
	"context"
	"fmt"
	"os"
	"path/filepath"

	"verifharness/internal/dbx"
	"verifharness/internal/seqrun"
)

func init() {
	// diagnostic: repeats one gRPC tcp-cut plan and prints what the client saw and what the server stored
	Extra["c10probe"] = func(args []string) int {
		dir := filepath.Join(os.TempDir(), "..", "var", "tmp", fmt.Sprintf("c10probe-%d", os.Getpid()))
		os.RemoveAll(dir)
		env, err := dbx.Open(dbx.Options{Mode: dbx.Grpc, Dir: dir, Proxy: true})
		if err != nil {
			fmt.Println(err)
			return 1
		}
		defer func() { env.Close(); os.RemoveAll(dir) }()
		odd := 0
		for i := 0; i < 3000; i++ {
			key := "k"
			prev := seqrun.Content(fmt.Sprintf("p%d", i), 64)
			env.Direct.Set(ctxBg, key, prev)
			src := seqrun.Content(fmt.Sprintf("s%d", i), 400000)
			ctx, cancel := context.WithCancel(ctxBg)
			fr := &faultReader{data: src, off: len(src)}
			env.CutAfter(1)
			env.CutAfter(int64(1 + (i%7)*3000))
			pl := startPoller(env.Direct, key, [][]byte{prev, src}, false)
			cr := &countReader{r: fr}
			werr := doWrite(env.DB, ctx, []string{"create", "setreader", "set"}[i%3], key, cr, src)
			consumed := cr.n
			if bad := pl.finish(); bad != nil {
				odd++
				fmt.Printf("iter %d api=%s POLLER: %s werr=%v\n", i, []string{"create", "setreader", "set"}[i%3], *bad, werr)
			}
			cancel()
			fired := env.CutFired()
			b, gerr := env.Direct.Get(ctxBg, key)
			state := "prev"
			switch {
			case gerr != nil:
				state = "err " + gerr.Error()
			case string(b) == string(src):
				state = "complete"
			case string(b) != string(prev):
				state = fmt.Sprintf("PARTIAL %d bytes", len(b))
			}
			if (werr == nil) != (state == "complete") || state[:3] == "PAR" {
				odd++
				fmt.Printf("iter %d fired=%v werr=%v stored=%s consumed_from_source=%d last_read_err=%v\n", i, fired, werr, state, consumed, cr.lastErr)
			}
		}
		fmt.Println("odd outcomes:", odd)
		return 0
	}
}

type countReader struct {
	r       interface{ Read([]byte) (int, error) }
	n       int
	lastErr error
}

func (c *countReader) Read(p []byte) (int, error) {
	n, err := c.r.Read(p)
	c.n += n
	c.lastErr = err
	return n, err
}
