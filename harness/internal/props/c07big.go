package props

import (
	"bytes"
	"fmt"
	"path/filepath"
	"sort"

	"github.com/glebziz/fs_db"
	"github.com/glebziz/fs_db/pkg/verif"

	"verifharness/internal/dbx"
	"verifharness/internal/refmodel"
	"verifharness/internal/rt"
	"verifharness/internal/seqrun"
)

func init() {
	p := Registry["C07"]
	p.Roles["bigloser"] = Role{N: func(t string) int { return tierN(t, 6, 32) }, Case: c07BigLoser}
	p.Rule += " Role bigloser: the losing transaction wrote 1001 to 4500 keys (sets, deletions of existing keys, keys written twice) besides the contended one, the winner one to three keys; after the loser's Commit failed with ErrTxSerialization, the key list and every value read outside a transaction, by a ReadUncommitted transaction, and again after closing and reopening the database, are exactly what the winner left: no part of a large write set may have been made visible or durable before the conflict was noticed, wherever the contended key sits in the order the commit walks its keys."
}

func c07BigLoser(tier string, seed int64, idx int, scratch string) rt.CaseResult {
	var c rt.CaseResult
	rng := seqrun.Rng(seed, "C07big", idx)
	mode := dbx.Inline
	if idx%3 == 2 {
		mode = dbx.Grpc
	}
	env, err := dbx.Open(dbx.Options{Mode: mode, Dir: filepath.Join(scratch, "db")})
	if err != nil {
		c.Violate("open-failed", err.Error(), nil)
		return c
	}
	defer func() { env.Close() }()
	n := []int{1001, 1500, 2001, 2500, 3100, 4500}[idx%6]
	levels := [2]int{2 + idx%2, 2 + idx/2%2}
	plan := map[string]any{"seed": seed, "case": idx, "mode": modeName(mode), "loser_keys": n, "levels": levels}
	// committed state before: some of the keys the loser will touch exist already
	state := map[string][]byte{}
	for i := 0; i < n; i += 7 {
		k := fmt.Sprintf("b%05d", i)
		state[k] = seqrun.Content(k+"-init", 5)
		if err := env.DB.Set(ctxBg, k, state[k]); err != nil {
			c.Violate("set-failed", err.Error(), plan)
			return c
		}
	}
	contended := fmt.Sprintf("b%05d", rng.Intn(n))
	loser, err := env.DB.Begin(ctxBg, verif.IsoLevel(levels[0]))
	if err != nil {
		c.Violate("begin-failed", err.Error(), plan)
		return c
	}
	winner, err := env.DB.Begin(ctxBg, verif.IsoLevel(levels[1]))
	if err != nil {
		c.Violate("begin-failed", err.Error(), plan)
		return c
	}
	for i := 0; i < n; i++ {
		if i%256 == 0 {
			rt.Beat()
		}
		k := fmt.Sprintf("b%05d", i)
		switch {
		case i%7 == 0 && i%3 == 0 && k != contended:
			err = loser.Delete(ctxBg, k)
		default:
			err = loser.Set(ctxBg, k, seqrun.Content(k+"-loser", 6))
			if err == nil && i%11 == 0 {
				err = loser.Set(ctxBg, k, seqrun.Content(k+"-loser-again", 6))
			}
		}
		if err != nil {
			c.Violate("write-in-transaction-failed", err.Error(), plan)
			return c
		}
	}
	wkeys := []string{contended, "winner-only", fmt.Sprintf("b%05d", (rng.Intn(n)))}[:1+idx%3]
	for _, k := range wkeys {
		v := seqrun.Content(k+"-winner", 8)
		if err := winner.Set(ctxBg, k, v); err != nil {
			c.Violate("write-in-transaction-failed", err.Error(), plan)
			return c
		}
		state[k] = v
	}
	if err := winner.Commit(ctxBg); err != nil {
		c.Violate("first-committer-rejected class="+string(seqrun.Class(err)), fmt.Sprintf("the first Commit failed: %v", err), plan)
		return c
	}
	lerr := loser.Commit(ctxBg)
	c.Evals++
	switch {
	case lerr == nil:
		c.Violate("lost-update both-committed big-write-set", fmt.Sprintf("the Commit of the transaction with %d keys succeeded although the contended key %s was committed by the other one after both had begun", n, contended), plan)
		return c
	case seqrun.Class(lerr) != refmodel.TxSerial:
		c.Violate("second-committer-wrong-error class="+string(seqrun.Class(lerr)), fmt.Sprintf("the second Commit failed with %v, expected ErrTxSerialization", lerr), plan)
		return c
	}
	wantKeys := make([]string, 0, len(state))
	for k := range state {
		wantKeys = append(wantKeys, k)
	}
	sort.Strings(wantKeys)
	look := func(when string, st fs_db.Store) bool {
		keys, err := st.GetKeys(ctxBg)
		sort.Strings(keys)
		c.Evals += int64(len(wantKeys)) + 1
		if err != nil || fmt.Sprint(keys) != fmt.Sprint(wantKeys) {
			extra, missing := diffKeys(keys, wantKeys)
			plan["extra"], plan["missing"] = extra[:min(5, len(extra))], missing[:min(5, len(missing))]
			c.Violate("loser-partly-visible big-write-set keys "+when, fmt.Sprintf("%s: GetKeys lists %d keys (%v), the committed state has %d: %d keys too many (%v...), %d missing (%v...) - writes of the transaction whose Commit failed", when, len(keys), err, len(wantKeys), len(extra), extra[:min(3, len(extra))], len(missing), missing[:min(3, len(missing))]), plan)
			return false
		}
		for i, k := range wantKeys {
			if i%256 == 0 {
				rt.Beat()
			}
			b, err := st.Get(ctxBg, k)
			if err != nil || !bytes.Equal(b, state[k]) {
				c.Violate("loser-partly-visible big-write-set value "+when, fmt.Sprintf("%s: key %s reads %s (%v), committed is %s", when, k, seqrun.Describe(b), err, seqrun.Describe(state[k])), plan)
				return false
			}
		}
		// a key only the loser wrote
		for _, i := range []int{1, n / 2, n - 1} {
			k := fmt.Sprintf("b%05d", i)
			if _, ok := state[k]; ok {
				continue
			}
			if _, err := st.Get(ctxBg, k); seqrun.Class(err) != refmodel.NotFound {
				c.Violate("loser-partly-visible big-write-set own-key "+when, fmt.Sprintf("%s: key %s, written only by the transaction whose Commit failed, reads with %v", when, k, err), plan)
				return false
			}
		}
		return true
	}
	if !look("right after the failed Commit", env.DB) {
		return c
	}
	ru, err := env.DB.Begin(ctxBg, fs_db.IsoLevelReadUncommitted)
	if err == nil {
		ok := look("in a ReadUncommitted transaction", ru)
		ru.Rollback(ctxBg)
		if !ok {
			return c
		}
	}
	if err := env.Reopen(); err != nil {
		c.Violate("reopen-failed", err.Error(), plan)
		return c
	}
	if !look("after closing and reopening", env.DB) {
		return c
	}
	c.AddDistinct(fmt.Sprintf("bigloser/%s/n=%d/levels=%v/winner-keys=%d", modeName(mode), n, levels, len(wkeys)))
	if idx == 0 {
		c.Sample = plan
	}
	return c
}

func diffKeys(got, want []string) (extra, missing []string) {
	g, w := map[string]bool{}, map[string]bool{}
	for _, k := range got {
		g[k] = true
	}
	for _, k := range want {
		w[k] = true
		if !g[k] {
			missing = append(missing, k)
		}
	}
	for _, k := range got {
		if !w[k] {
			extra = append(extra, k)
		}
	}
	return
}
