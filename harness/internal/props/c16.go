package props

import (
	"context"
	"fmt"
	"runtime"
	"sync"
	"sync/atomic"
	"time"

	"github.com/glebziz/fs_db/pkg/verif"

	"verifharness/internal/conc"
	"verifharness/internal/rt"
	"verifharness/internal/seqrun"
)

func init() {
	register(&Prop{
		ID: "C16", Level: "exploration",
		Rule:        "the real wpool.Pool alone; jobs are closures that bump per-job counters and record start/finish stamps, gates keep workers busy as long as the harness wants. S1: all workers gated, a burst of Sends must return while the gates are still closed (promptness decided logically), then gates open, quiescence is awaited through the pool's own state (deferred list, flusher try-lock, channel length read under the pool's list mutex) and every accepted job must have run exactly once; the state 'deferred list non-empty and flusher lock free' is a stuck state (nothing but a further deferred Send can move those jobs) and is reported. S2: the flusher-exit window steered through hook gates (flusher saw the list empty <-> a deferred Send finds the flusher busy). S3: Stop with jobs in flight: no job may be running when Stop returns and none may start afterwards. S4: seeded sequences of Run/Send/Stop (Send before Run, concurrent Stop/Stop, Run-Stop-Run cycles) from several goroutines: no panic, no dead-lock (watchdog + goroutine dumps), at-most-once. evaluations = jobs sent; distinct_nontrivial = distinct (scenario, path taken: direct/deferred, window outcome, call pattern) tuples",
		Assumptions: []string{"VerifState is read under the pool's own list mutex", "watchdog firing without a clear dead-lock is inconclusive"},
		Roles: map[string]Role{
			"s1burst":  {N: func(t string) int { return tierN(t, 120, 20000) }, Case: c16Burst},
			"s2window": {N: func(t string) int { return tierN(t, 40, 6000) }, Case: c16Window},
			"s3stop":   {N: func(t string) int { return tierN(t, 80, 20000) }, Case: c16Stop},
			"s4order":  {N: func(t string) int { return tierN(t, 120, 9600) }, Case: c16Order, Batch: 4},
			"s5jobs":   {N: func(t string) int { return tierN(t, 60, 8000) }, Case: c16Jobs},
		},
	})
}

type c16Job struct {
	id       int
	runs     atomic.Int32
	started  atomic.Int64
	finished atomic.Int64
	gate     chan struct{}
	// behaviours of hostile jobs
	retErr     bool            // returns an error
	waitCaller bool            // waits until its own context is done and returns the context's error
	callerCtx  context.Context // sent with this context instead of the usual one
	onDone     func()          // called once the job's context is done (gated jobs), before lingering
	hold       chan struct{}   // after the context is done the job keeps running until this is closed
}

type c16Env struct {
	lingerAfterCancel time.Duration
	workers           int
	pool              *verif.Pool
	t0                time.Time
	jobs              []*c16Job
	running           atomic.Int32
	mu                sync.Mutex
}

func (e *c16Env) now() int64 { return int64(time.Since(e.t0)) + 1 }

func (e *c16Env) newJob(gated bool) *c16Job {
	e.mu.Lock()
	defer e.mu.Unlock()
	j := &c16Job{id: len(e.jobs)}
	if gated {
		j.gate = make(chan struct{})
	}
	e.jobs = append(e.jobs, j)
	return j
}

func (e *c16Env) send(j *c16Job) {
	ctx := context.Background()
	if j.callerCtx != nil {
		ctx = j.callerCtx
	} else if j.id%3 == 1 && j.gate == nil {
		// the caller's context is cancelled right after Send returned (a request-scoped context):
		// the job was accepted and must run all the same
		c, cancel := context.WithCancel(ctx)
		ctx = c
		defer cancel()
	}
	e.pool.Send(ctx, verif.PoolEvent{Caller: fmt.Sprintf("job%d", j.id%3), Fn: func(ctx context.Context) error {
		e.running.Add(1)
		j.runs.Add(1)
		j.started.Store(e.now())
		if j.gate != nil {
			select {
			case <-j.gate:
			case <-ctx.Done():
				if j.onDone != nil {
					j.onDone()
				}
				if j.hold != nil {
					<-j.hold
				}
				time.Sleep(e.lingerAfterCancel)
			}
		}
		var err error
		if j.waitCaller {
			<-ctx.Done()
			err = ctx.Err()
		}
		if j.retErr {
			err = fmt.Errorf("job %d failed", j.id)
		}
		j.finished.Store(e.now())
		e.running.Add(-1)
		return err
	}})
}

// quiesce waits until nothing is pending, soundly: it sends one barrier job per worker; when all
// barrier jobs run at once no worker can hold any other job (not even one it has received but not
// started), and the pool's own state, read under its list mutex at that moment, must show an empty
// deferred list, no flusher and an empty channel. The stuck state (deferred jobs, no flusher, no
// Send in progress) is reported.
func (e *c16Env) quiesce(c *rt.CaseResult, replay map[string]any) bool {
	workers := e.workers
	if workers < 1 {
		workers = 1
	}
	stuckSeen := 0
	t0 := time.Now()
	var lastBusy verif.PoolState
	lastChange := time.Now()
	for iter := 0; iter < 400; iter++ {
		st := e.pool.VerifState()
		if st.Deferred > 0 && !st.FlusherActive {
			stuckSeen++
			if stuckSeen >= 3 {
				replay["pool_state"] = fmt.Sprintf("%+v", st)
				c.Violate("stuck-deferred-jobs deferred>0 flusher-gone", fmt.Sprintf("%d job(s) sit in the deferred list while no flusher is active and no Send is in progress: they run only if a later Send happens to take the deferred path", st.Deferred), replay)
				return false
			}
			time.Sleep(500 * time.Microsecond)
			continue
		}
		stuckSeen = 0
		if st.Deferred > 0 && st.ChanLen == 0 && st == lastBusy && time.Since(lastChange) > 3*time.Second {
			// Nothing has moved for a second although the channel is empty. Decide logically: if no
			// job is running, the channel is empty and the deferred list stays untouched, whoever
			// holds the flusher role is not flushing (a live flusher sends into a channel with room).
			// this pool runs only the harness's jobs: no job running and an empty channel mean every
			// worker is free; sample that three times, 400 ms apart (after three seconds without any change)
			idleRounds := 0
			for round := 0; round < 3; round++ {
				rt.Beat()
				now := e.pool.VerifState()
				if e.running.Load() == 0 && now.ChanLen == 0 && now.Deferred >= st.Deferred {
					idleRounds++
				}
				time.Sleep(400 * time.Millisecond)
			}
			if idleRounds == 3 {
				replay["pool_state"] = fmt.Sprintf("%+v", e.pool.VerifState())
				c.Violate("deferred-jobs-not-flushed workers-idle channel-empty", fmt.Sprintf("%d job(s) stay in the deferred list although no job was running and the channel was empty in three consecutive looks: the flusher role is held by nobody who flushes", st.Deferred), replay)
				return false
			}
			lastChange = time.Now()
		}
		if st.ChanLen > 0 && st == lastBusy && time.Since(lastChange) > 3*time.Second {
			// jobs sit in the channel and nothing has moved for three seconds: if no job is running
			// either, no worker is taking them (a live, free worker receives at once)
			idleRounds := 0
			for round := 0; round < 3; round++ {
				rt.Beat()
				now := e.pool.VerifState()
				if e.running.Load() == 0 && now.ChanLen >= st.ChanLen {
					idleRounds++
				}
				time.Sleep(400 * time.Millisecond)
			}
			if idleRounds == 3 {
				replay["pool_state"] = fmt.Sprintf("%+v", e.pool.VerifState())
				c.Violate("queued-jobs-not-taken workers-gone", fmt.Sprintf("%d accepted job(s) stay in the channel although no job was running in three consecutive looks: no worker is receiving any more", st.ChanLen), replay)
				return false
			}
			lastChange = time.Now()
		}
		if st != lastBusy {
			lastBusy, lastChange = st, time.Now()
		}
		if st.Deferred > 0 || st.FlusherActive || st.ChanLen > 0 {
			// jobs are still moving: do not push barrier jobs on top of them (the deferred list is
			// last-in-first-out, barrier jobs would overtake and starve them); look again shortly
			time.Sleep(200 * time.Microsecond)
			if iter < 399 {
				iter-- // only barrier rounds count against the limit; the wall-clock guard below bounds this loop
			}
			if time.Since(t0) > 60*time.Second {
				c.Inconclusive = append(c.Inconclusive, fmt.Sprintf("pool still busy after 60 s: %+v", st))
				return false
			}
			continue
		}
		var started, finished sync.WaitGroup
		started.Add(workers)
		finished.Add(workers)
		release := make(chan struct{})
		for i := 0; i < workers; i++ {
			e.pool.Send(context.Background(), verif.PoolEvent{Caller: "verif.barrier", Fn: func(context.Context) error {
				started.Done()
				<-release
				finished.Done()
				return nil
			}})
		}
		ok := make(chan struct{})
		go func() { started.Wait(); close(ok) }()
		select {
		case <-ok:
		case <-time.After(10 * time.Second):
			rt.Beat()
			st = e.pool.VerifState()
			close(release)
			if st.Deferred > 0 && !st.FlusherActive {
				replay["pool_state"] = fmt.Sprintf("%+v", st)
				c.Violate("stuck-deferred-jobs deferred>0 flusher-gone", fmt.Sprintf("%d job(s) (among them barrier jobs) sit in the deferred list while no flusher is active", st.Deferred), replay)
				return false
			}
			c.Inconclusive = append(c.Inconclusive, fmt.Sprintf("barrier jobs did not all start: %+v", st))
			return false
		}
		// all workers are held by barrier jobs: the only thing that can still move is a flusher
		// that is about to find the list empty (possibly the one that delivered the barrier jobs)
		st = e.pool.VerifState()
		for w := 0; w < 200 && st.FlusherActive && st.Deferred == 0 && st.ChanLen == 0; w++ {
			time.Sleep(100 * time.Microsecond)
			st = e.pool.VerifState()
		}
		close(release)
		finished.Wait()
		if st.Deferred == 0 && !st.FlusherActive && st.ChanLen == 0 {
			return true
		}
	}
	c.Inconclusive = append(c.Inconclusive, fmt.Sprintf("pool did not become quiescent: last state %+v", e.pool.VerifState()))
	return false
}

func (e *c16Env) checkOnce(c *rt.CaseResult, replay map[string]any, exactly bool) {
	for _, j := range e.jobs {
		n := j.runs.Load()
		if n > 1 {
			c.Violate("job-ran-twice", fmt.Sprintf("job %d ran %d times", j.id, n), replay)
			return
		}
		if exactly && n == 0 {
			c.Violate("job-lost", fmt.Sprintf("job %d was accepted by Send while the pool was running and never ran", j.id), replay)
			return
		}
	}
}

func c16Burst(tier string, seed int64, idx int, scratch string) rt.CaseResult {
	var c rt.CaseResult
	rng := seqrun.Rng(seed, "C16", idx)
	workers := 1 + rng.Intn(4)
	sd := []time.Duration{1, time.Microsecond, 50 * time.Microsecond, time.Millisecond}[rng.Intn(4)]
	e := &c16Env{workers: workers, pool: verif.NewPool(verif.PoolOptions{NumWorkers: workers, SendDuration: sd}), t0: time.Now()}
	tr := conc.NewTracer(false)
	tr.Perturb(30, 200, uint64(seed)*17+uint64(idx))
	tr.Install()
	defer conc.Uninstall()
	e.pool.Run(context.Background())
	replay := map[string]any{"seed": seed, "case": idx, "workers": workers, "send_duration": sd.String()}
	// occupy every worker
	var blockers []*c16Job
	for i := 0; i < workers; i++ {
		j := e.newJob(true)
		blockers = append(blockers, j)
		e.send(j)
	}
	m := 1 + rng.Intn(4*workers+6)
	senders := 1 + rng.Intn(3)
	done := make(chan struct{})
	go func() {
		var wg sync.WaitGroup
		for s := 0; s < senders; s++ {
			wg.Add(1)
			go func(s int) {
				defer wg.Done()
				for i := s; i < m; i += senders {
					e.send(e.newJob(false))
				}
			}(s)
		}
		wg.Wait()
		close(done)
	}()
	prompt := true
	select {
	case <-done:
	case <-time.After(20 * time.Second):
		prompt = false
	}
	for _, b := range blockers {
		close(b.gate)
	}
	if !prompt {
		<-done
		c.Violate("send-waited-for-free-worker", "a burst of Sends returned only after the busy workers were released", replay)
	}
	c.Evals = int64(len(e.jobs))
	path := "direct"
	if tr.Count("wpool.send.timeout") > 0 {
		path = "deferred"
	}
	if e.quiesce(&c, replay) {
		e.checkOnce(&c, replay, true)
	}
	c.AddDistinct(fmt.Sprintf("s1/workers=%d/%s/busy=%v", workers, path, tr.Count("wpool.lazyresend.busy") > 0))
	c.Count("jobs_deferred", tr.Count("wpool.send.timeout"))
	c.Count("flusher_found_busy", tr.Count("wpool.lazyresend.busy"))
	e.pool.Stop()
	if idx == 0 {
		c.Sample = map[string]any{"scenario": "S1", "workers": workers, "burst": m, "path": path}
	}
	return c
}

func c16Window(tier string, seed int64, idx int, scratch string) rt.CaseResult {
	var c rt.CaseResult
	e := &c16Env{workers: 1, pool: verif.NewPool(verif.PoolOptions{NumWorkers: 1, SendDuration: time.Microsecond}), t0: time.Now()}
	tr := conc.NewTracer(true)
	tr.Install()
	defer conc.Uninstall()
	e.pool.Run(context.Background())
	replay := map[string]any{"seed": seed, "case": idx}
	// A occupies the worker, B and C fill the channel (capacity 2), D takes the deferred path
	a, b, cc, d := e.newJob(true), e.newJob(true), e.newJob(true), e.newJob(true)
	e.send(a)
	for a.started.Load() == 0 {
		time.Sleep(50 * time.Microsecond)
	}
	e.send(b)
	e.send(cc)
	gate := tr.AddGate(&conc.Gate{WaitPoint: "wpool.flusher.empty", SigPoint: "wpool.lazyresend.busy", Timeout: 300 * time.Millisecond})
	e.send(d) // deferred: flusher pops D and blocks on the full channel
	close(a.gate)
	// worker takes B (gated); flusher pushes D; flusher sees the list empty and parks at the gate
	reached := gate.WaitReached(2 * time.Second)
	last := e.newJob(false)
	if reached {
		e.send(last) // channel is full again (C, D): deferred; finds the flusher busy
	}
	out := gate.Outcome()
	for i := 0; i < 2000 && out == "pending"; i++ { // the bounded wait of the gate is still running
		time.Sleep(500 * time.Microsecond)
		out = gate.Outcome()
	}
	for _, j := range []*c16Job{b, cc, d} {
		close(j.gate)
	}
	if reached {
		if e.quiesce(&c, replay) {
			e.checkOnce(&c, replay, true)
		}
	} else {
		c.Inconclusive = append(c.Inconclusive, "flusher never reached the empty-list point")
	}
	replay["gate"] = out
	c.Evals = int64(len(e.jobs))
	c.AddDistinct("s2/flusher.empty<deferred-send<flusher.exit/" + out)
	c.Observe("window orders and gate outcomes", "flusher.empty < deferred Send finds flusher busy < flusher exit -> "+out)
	e.pool.Stop()
	if idx == 0 {
		c.Sample = map[string]any{"scenario": "S2", "gate_outcome": out, "last_job_runs": last.runs.Load()}
	}
	return c
}

func c16Stop(tier string, seed int64, idx int, scratch string) rt.CaseResult {
	var c rt.CaseResult
	rng := seqrun.Rng(seed, "C16s", idx)
	workers := 1 + rng.Intn(3)
	e := &c16Env{pool: verif.NewPool(verif.PoolOptions{NumWorkers: workers, SendDuration: []time.Duration{1, time.Millisecond}[rng.Intn(2)]}), t0: time.Now()}
	tr := conc.NewTracer(false)
	tr.Perturb(30, 200, uint64(seed)*19+uint64(idx))
	tr.Install()
	defer conc.Uninstall()
	e.pool.Run(context.Background())
	replay := map[string]any{"seed": seed, "case": idx, "workers": workers}
	n := 2 + rng.Intn(4*workers+4)
	var wg sync.WaitGroup
	wg.Add(1)
	go func() {
		defer wg.Done()
		for i := 0; i < n; i++ {
			j := e.newJob(rng.Intn(2) == 0) // gated jobs end when the pool's context is cancelled
			e.send(j)
		}
	}()
	if rng.Intn(2) == 0 {
		wg.Wait()
	} else {
		time.Sleep(time.Duration(rng.Intn(300)) * time.Microsecond)
	}
	e.lingerAfterCancel = time.Duration(rng.Intn(3)) * time.Millisecond
	if rng.Intn(2) == 0 {
		// two overlapping Stop calls: each of them may return only when nothing is running any more
		var sw sync.WaitGroup
		for i := 0; i < 2; i++ {
			sw.Add(1)
			go func(i int) {
				defer sw.Done()
				if i == 1 {
					time.Sleep(time.Duration(rng.Intn(200)) * time.Microsecond)
				}
				e.pool.Stop()
				if r := e.running.Load(); r != 0 {
					c.Violate("stop-returned-with-running-jobs concurrent-stop", fmt.Sprintf("%d job(s) were still running when one of two overlapping Stop calls returned", r), replay)
				}
			}(i)
		}
		sw.Wait()
		replay["double_stop"] = true
	} else {
		e.pool.Stop()
	}
	stopRet := e.now()
	if r := e.running.Load(); r != 0 {
		c.Violate("stop-returned-with-running-jobs", fmt.Sprintf("%d job(s) were still running when Stop returned", r), replay)
	}
	wg.Wait()
	time.Sleep(2 * time.Millisecond)
	e.mu.Lock()
	for _, j := range e.jobs {
		if s := j.started.Load(); s > stopRet {
			c.Violate("job-started-after-stop", fmt.Sprintf("job %d started %d ns after Stop had returned", j.id, s-stopRet), replay)
			break
		}
	}
	e.mu.Unlock()
	e.checkOnce(&c, replay, false)
	c.Evals = int64(len(e.jobs))
	c.AddDistinct(fmt.Sprintf("s3/workers=%d/deferred=%v", workers, tr.Count("wpool.send.timeout") > 0))
	if idx == 0 {
		c.Sample = map[string]any{"scenario": "S3", "jobs": n, "workers": workers}
	}
	return c
}

// c16Order: call patterns of Run/Send/Stop in any order and concurrency; a panic or
// dead-lock kills the child, which the parent classifies.
func c16Order(tier string, seed int64, idx int, scratch string) rt.CaseResult {
	var c rt.CaseResult
	rt.SetWatchdogLimit(30 * time.Second)
	rng := seqrun.Rng(seed, "C16o", idx)
	patterns := []string{"send-before-run", "stop-stop-concurrent", "run-stop-run", "stop-before-run", "send-during-stop", "run-run-concurrent", "random", "stop-racing-runs", "restart-with-deferred", "first-deferral-racing-stop", "send-from-job-during-stop", "send-while-stop-waits", "race-for-last-slot", "run-context-cancelled-before-stop", "sched-vs-stop", "restart-then-send"}
	pat := patterns[idx%len(patterns)]
	e := &c16Env{pool: verif.NewPool(verif.PoolOptions{NumWorkers: 1 + rng.Intn(2), SendDuration: time.Microsecond}), t0: time.Now()}
	fmt.Fprintf(stderrW, "C16 pattern %s\n", pat)
	bg := context.Background()
	par := func(fs ...func()) {
		var wg sync.WaitGroup
		for _, f := range fs {
			wg.Add(1)
			go func(f func()) { defer wg.Done(); f() }(f)
		}
		wg.Wait()
	}
	send := func() { e.send(e.newJob(false)) }
	switch pat {
	case "send-before-run":
		send()
		e.pool.Run(bg)
		send()
		e.pool.Stop()
	case "stop-stop-concurrent":
		e.pool.Run(bg)
		send()
		par(e.pool.Stop, e.pool.Stop)
	case "run-stop-run":
		for i := 0; i < 3; i++ {
			e.pool.Run(bg)
			send()
			send()
			e.pool.Stop()
		}
	case "stop-before-run":
		e.pool.Stop()
		e.pool.Run(bg)
		send()
		e.pool.Stop()
		e.pool.Stop()
	case "send-during-stop":
		// busy worker, full channel, many senders timing out together, Stop a moment later
		for round := 0; round < 120; round++ {
			rt.Beat()
			e.pool.Run(bg)
			blocker := e.newJob(true)
			e.send(blocker)
			var fs []func()
			for i := 0; i < 24; i++ {
				fs = append(fs, send)
			}
			fs = append(fs, func() { time.Sleep(time.Duration(rng.Intn(60)) * time.Microsecond); e.pool.Stop() })
			par(fs...)
			e.pool.Stop()
		}
	case "first-deferral-racing-stop":
		// the one Send that has to be deferred (and so starts the flusher) races with Stop; the
		// pool is then run again: a flusher that outlived Stop would hit the closed channel or
		// feed a job of the old life to the new one
		e.workers = 1
		e.pool = verif.NewPool(verif.PoolOptions{NumWorkers: 1, SendDuration: 1})
		var spin atomic.Int64
		for round := 0; round < 4000; round++ {
			if round%64 == 0 {
				rt.Beat()
			}
			e.pool.Run(bg)
			blocker := e.newJob(true)
			e.send(blocker)
			for blocker.started.Load() == 0 {
				runtime.Gosched()
			}
			send() // the channel of a one-worker pool holds two
			send()
			returned := make(chan struct{})
			go func() {
				send() // has to be deferred: starts the flusher
				close(returned)
				for i := 0; i < 2000; i++ { // stays on its processor, as a caller that goes on working does
					spin.Add(1)
				}
			}()
			for i := 0; i < (round+idx)%64; i++ { // phase between the Send and the Stop
				spin.Add(1)
			}
			e.pool.Stop()
			<-returned
			e.pool.Run(bg)
			time.Sleep(20 * time.Microsecond)
			e.pool.Stop()
		}
	case "stop-racing-runs":
		for round := 0; round < 150; round++ {
			rt.Beat()
			e.pool.Run(bg)
			send()
			fs := []func(){e.pool.Stop}
			for i := 0; i < 4; i++ {
				fs = append(fs, func() { e.pool.Run(bg) })
			}
			par(fs...)
			send()
			e.pool.Stop()
		}
	case "restart-with-deferred":
		// first life: a flusher is blocked on the full channel when Stop is called; second life:
		// deferred jobs must be flushed again
		e.workers = 1
		e.pool = verif.NewPool(verif.PoolOptions{NumWorkers: 1, SendDuration: time.Microsecond})
		for life := 0; life < 2; life++ {
			e.pool.Run(bg)
			first := len(e.jobs)
			var gated []*c16Job
			for i := 0; i < 5; i++ { // 1 running, 2 in the channel, 2 deferred (flusher blocked on the channel)
				j := e.newJob(true)
				gated = append(gated, j)
				e.send(j)
				if i == 0 {
					for j.started.Load() == 0 {
						time.Sleep(50 * time.Microsecond)
					}
				}
			}
			if life == 0 {
				time.Sleep(2 * time.Millisecond)
				e.pool.Stop() // gated jobs end through the cancelled context; queued ones may be dropped
				continue
			}
			for _, j := range gated {
				close(j.gate)
			}
			rp := map[string]any{"pattern": pat, "seed": seed, "case": idx}
			if e.quiesce(&c, rp) {
				for _, j := range e.jobs[first:] {
					if j.runs.Load() != 1 {
						c.Violate("job-lost after-restart", fmt.Sprintf("job %d, accepted in the pool's second life, ran %d times", j.id, j.runs.Load()), rp)
						break
					}
				}
			}
			e.pool.Stop()
		}
	case "send-from-job-during-stop":
		// a job that is in flight when Stop is called hands a follow-up job to the pool before it
		// returns (a job is a caller like any other): Stop must still return, the Send too
		for round := 0; round < 20; round++ {
			rt.Beat()
			e.pool.Run(bg)
			j := e.newJob(true)
			j.onDone, j.callerCtx = send, bg
			e.send(j)
			for j.started.Load() == 0 {
				runtime.Gosched()
			}
			if round%2 == 1 {
				send()
				send()
				send() // channel full: the job's own Send takes the deferred path
			}
			e.pool.Stop()
			if j.finished.Load() == 0 {
				c.Violate("stop-returned-with-running-jobs job-sends", "Stop returned while the job that was in flight (and called Send) had not finished", map[string]any{"pattern": pat, "seed": seed, "case": idx})
			}
		}
	case "send-while-stop-waits":
		// Stop is waiting for an in-flight job that takes its time; a Send from another goroutine
		// must return (accepted or refused) without waiting for that job: decided logically, the job
		// is only let go once the Send has returned
		for round := 0; round < 12; round++ {
			rt.Beat()
			e.pool.Run(bg)
			j := e.newJob(true)
			j.hold = make(chan struct{})
			cancelled := make(chan struct{})
			j.onDone, j.callerCtx = func() { close(cancelled) }, bg
			e.send(j)
			for j.started.Load() == 0 {
				runtime.Gosched()
			}
			stopped := make(chan struct{})
			go func() { e.pool.Stop(); close(stopped) }()
			<-cancelled // Stop has cancelled the pool's context and is (about to be) waiting for j
			for i := 0; i < (round%4)*2000; i++ {
				runtime.Gosched()
			}
			sent := make(chan struct{})
			go func() { send(); close(sent) }()
			select {
			case <-sent:
			case <-stopped:
				c.Violate("stop-returned-with-running-jobs held-job", "Stop returned while a job was still running", map[string]any{"pattern": pat, "seed": seed, "case": idx})
				<-sent
			case <-time.After(20 * time.Second):
				c.Violate("send-waited-for-stop", "a Send issued while Stop was waiting for an in-flight job did not return until that job was let go (Send must return promptly, not wait for jobs)", map[string]any{"pattern": pat, "seed": seed, "case": idx})
				close(j.hold)
				<-sent
				<-stopped
				return c
			}
			close(j.hold)
			<-stopped
		}
	case "race-for-last-slot":
		// every worker is busy and the channel has exactly one free slot; several goroutines Send at
		// the same moment: all of them must return (direct or deferred) while the workers are still
		// busy - decided logically, the workers are only released once every Send has returned
		workers := 1 + rng.Intn(2)
		e.workers = workers
		e.pool = verif.NewPool(verif.PoolOptions{NumWorkers: workers, SendDuration: []time.Duration{time.Microsecond, 200 * time.Microsecond}[rng.Intn(2)]})
		e.pool.Run(bg)
		for round := 0; round < 150; round++ {
			if round%16 == 0 {
				rt.Beat()
			}
			var blockers []*c16Job
			for i := 0; i < workers; i++ {
				b := e.newJob(true)
				b.callerCtx = bg
				blockers = append(blockers, b)
				e.send(b)
			}
			for _, b := range blockers {
				for b.started.Load() == 0 {
					runtime.Gosched()
				}
			}
			for e.pool.VerifState().ChanLen < 2*workers-1 { // the channel holds two jobs per worker: leave one slot
				j := e.newJob(false)
				j.callerCtx = bg
				e.send(j)
			}
			var goFlag atomic.Bool
			var swg sync.WaitGroup
			for g := 0; g < 6; g++ {
				swg.Add(1)
				j := e.newJob(false)
				j.callerCtx = bg
				go func() {
					defer swg.Done()
					for !goFlag.Load() {
					}
					e.send(j)
				}()
			}
			done := make(chan struct{})
			go func() { swg.Wait(); close(done) }()
			goFlag.Store(true)
			late := false
			select {
			case <-done:
			case <-time.After(20 * time.Second):
				late = true
			}
			for _, b := range blockers {
				close(b.gate)
			}
			<-done
			rp := map[string]any{"pattern": pat, "seed": seed, "case": idx, "round": round, "workers": workers}
			if late {
				c.Violate("send-waited-for-free-worker last-slot", "six goroutines sent at the same moment with one free slot in the channel and every worker busy: at least one Send returned only after the workers had been released", rp)
				break
			}
			if !e.quiesce(&c, rp) {
				break
			}
		}
		if len(c.Violations) == 0 && len(c.Inconclusive) == 0 {
			e.checkOnce(&c, map[string]any{"pattern": pat, "seed": seed, "case": idx}, true)
		}
	case "run-context-cancelled-before-stop":
		// the owner cancels the context it gave to Run and calls Stop afterwards: Stop must still
		// wait for the job in flight, and nothing may start after it has returned
		for round := 0; round < 12; round++ {
			rt.Beat()
			ctx, cancel := context.WithCancel(bg)
			e.pool.Run(ctx)
			j := e.newJob(true)
			j.callerCtx = bg
			j.hold = make(chan struct{})
			cancelled := make(chan struct{})
			j.onDone = func() { close(cancelled) }
			e.send(j)
			for j.started.Load() == 0 {
				runtime.Gosched()
			}
			send()
			send()
			cancel()
			<-cancelled
			time.Sleep(time.Duration(round%3) * time.Millisecond)
			stopped := make(chan struct{})
			go func() { e.pool.Stop(); close(stopped) }()
			select {
			case <-stopped:
				c.Violate("stop-returned-with-running-jobs run-context-cancelled", "Stop returned while a job was still running (the context handed to Run had been cancelled before)", map[string]any{"pattern": pat, "seed": seed, "case": idx})
				close(j.hold)
				return c
			case <-time.After(30 * time.Millisecond):
			}
			close(j.hold)
			<-stopped
			stopRet := e.now()
			time.Sleep(2 * time.Millisecond)
			e.mu.Lock()
			for _, x := range e.jobs {
				if st := x.started.Load(); st > stopRet {
					c.Violate("job-started-after-stop run-context-cancelled", fmt.Sprintf("job %d started %d ns after Stop had returned", x.id, st-stopRet), map[string]any{"pattern": pat, "seed": seed, "case": idx})
					break
				}
			}
			e.mu.Unlock()
			if len(c.Violations) > 0 {
				return c
			}
		}
	case "restart-then-send":
		// Run, Stop, Run again (with a live and with an already used parent context), a short
		// pause, then Sends: the second life is a running pool like the first, every job handed
		// to it runs - without any further Stop or Send to help it along
		for round := 0; round < 40; round++ {
			rt.Beat()
			ctx, cancel := context.WithCancel(bg)
			e.pool.Run(ctx)
			send()
			e.pool.Stop()
			if round%2 == 0 {
				cancel()
			}
			e.pool.Run(bg)
			time.Sleep(time.Duration(round%5) * 300 * time.Microsecond)
			first := len(e.jobs)
			for i := 0; i < 3+round%4; i++ {
				j := e.newJob(false)
				j.callerCtx = bg
				e.send(j)
			}
			deadline := time.Now().Add(10 * time.Second)
			for {
				done := true
				e.mu.Lock()
				for _, j := range e.jobs[first:] {
					if j.runs.Load() == 0 {
						done = false
					}
				}
				e.mu.Unlock()
				if done || time.Now().After(deadline) {
					if !done {
						c.Violate("job-lost after-restart running-pool", fmt.Sprintf("round %d: Run, Stop, Run, then %d Sends: after ten seconds not all of them have run (the pool was started again and never stopped)", round, len(e.jobs)-first), map[string]any{"pattern": pat, "seed": seed, "case": idx, "round": round})
						cancel()
						return c
					}
					break
				}
				time.Sleep(200 * time.Microsecond)
			}
			cancel()
			e.pool.Stop()
		}
	case "sched-vs-stop":
		// scheduled events with periods of microseconds (the periodic collector of a database is
		// such an event) while the pool is stopped and run again: a tick may fall anywhere inside
		// Stop; nothing may panic, and after Stop has returned no scheduled job may start
		for round := 0; round < 300; round++ {
			if round%32 == 0 {
				rt.Beat()
			}
			e.pool.Run(bg)
			var ticks atomic.Int64
			var lastStart atomic.Int64
			for k := 0; k < 1+round%3; k++ {
				e.pool.Sched(bg, verif.PoolEvent{Caller: "verif.tick", Fn: func(context.Context) error {
					ticks.Add(1)
					lastStart.Store(e.now())
					return nil
				}}, time.Duration(1+round%7)*time.Microsecond)
			}
			for i := 0; i < (round%16)*50; i++ {
				runtime.Gosched()
			}
			e.pool.Stop()
			stopRet := e.now()
			time.Sleep(50 * time.Microsecond)
			if ls := lastStart.Load(); ls > stopRet {
				c.Violate("job-started-after-stop scheduled", fmt.Sprintf("a scheduled job started %d ns after Stop had returned", ls-stopRet), map[string]any{"pattern": pat, "seed": seed, "case": idx, "round": round})
				return c
			}
			c.Count("scheduled_ticks_run", ticks.Load())
		}
	case "run-run-concurrent":
		par(func() { e.pool.Run(bg) }, func() { e.pool.Run(bg) })
		send()
		e.pool.Stop()
	default:
		var fs []func()
		for g := 0; g < 3; g++ {
			lr := seqrun.Rng(seed, "C16o-g", idx*10+g)
			fs = append(fs, func() {
				for i := 0; i < 8; i++ {
					switch lr.Intn(6) {
					case 0:
						e.pool.Run(bg)
					case 1:
						e.pool.Stop()
					default:
						send()
					}
				}
			})
		}
		par(fs...)
		e.pool.Stop()
	}
	time.Sleep(time.Millisecond)
	e.checkOnce(&c, map[string]any{"pattern": pat, "seed": seed, "case": idx}, false)
	c.Evals = int64(len(e.jobs)) + 1
	c.AddDistinct("s4/" + pat)
	if idx == 0 {
		c.Sample = map[string]any{"scenario": "S4", "pattern": pat}
	}
	return c
}

// c16Jobs: jobs that misbehave the way real jobs do - they fail, their caller's context expires or is
// cancelled while they run and they return that context's error - must not cost the pool anything:
// every job accepted afterwards runs exactly once, on every worker count, direct and deferred path.
func c16Jobs(tier string, seed int64, idx int, scratch string) rt.CaseResult {
	var c rt.CaseResult
	rng := seqrun.Rng(seed, "C16j", idx)
	workers := 1 + rng.Intn(4)
	sd := []time.Duration{1, time.Microsecond, 50 * time.Microsecond, time.Millisecond}[rng.Intn(4)]
	e := &c16Env{workers: workers, pool: verif.NewPool(verif.PoolOptions{NumWorkers: workers, SendDuration: sd}), t0: time.Now()}
	tr := conc.NewTracer(false)
	tr.Perturb(30, 200, uint64(seed)*23+uint64(idx))
	tr.Install()
	defer conc.Uninstall()
	e.pool.Run(context.Background())
	replay := map[string]any{"seed": seed, "case": idx, "workers": workers, "send_duration": sd.String()}
	kinds := map[string]int{}
	waves := 1 + rng.Intn(3)
	for w := 0; w < waves; w++ {
		hostile := workers + rng.Intn(2*workers+2)
		var cancels []context.CancelFunc
		for i := 0; i < hostile; i++ {
			j := e.newJob(false)
			switch k := rng.Intn(4); k {
			case 0:
				j.retErr = true
				j.callerCtx = context.Background()
				kinds["fails"]++
			case 1: // the caller gives up while the job runs
				ctx, cancel := context.WithCancel(context.Background())
				j.callerCtx, j.waitCaller = ctx, true
				cancels = append(cancels, cancel)
				kinds["caller-cancels-while-running"]++
			case 2: // the caller's deadline expires while the job runs
				ctx, cancel := context.WithTimeout(context.Background(), time.Duration(50+rng.Intn(500))*time.Microsecond)
				j.callerCtx, j.waitCaller = ctx, true
				cancels = append(cancels, func() { _ = cancel })
				kinds["caller-deadline-while-running"]++
			default: // fails, and its caller has gone meanwhile
				ctx, cancel := context.WithCancel(context.Background())
				j.callerCtx, j.waitCaller, j.retErr = ctx, true, true
				cancels = append(cancels, cancel)
				kinds["fails-after-caller-left"]++
			}
			e.send(j)
		}
		time.Sleep(time.Duration(rng.Intn(400)) * time.Microsecond)
		for _, cancel := range cancels {
			cancel()
		}
		m := 1 + rng.Intn(4*workers+6)
		for i := 0; i < m; i++ {
			j := e.newJob(false)
			j.callerCtx = context.Background()
			e.send(j)
		}
		if !e.quiesce(&c, replay) {
			break
		}
	}
	if len(c.Violations) == 0 && len(c.Inconclusive) == 0 {
		e.checkOnce(&c, replay, true)
	}
	replay["hostile_jobs"] = kinds
	c.Evals = int64(len(e.jobs))
	for k := range kinds {
		c.AddDistinct(fmt.Sprintf("s5/workers=%d/%s/deferred=%v", workers, k, tr.Count("wpool.send.timeout") > 0))
	}
	e.pool.Stop()
	if idx == 0 {
		c.Sample = map[string]any{"scenario": "S5", "workers": workers, "waves": waves, "hostile_jobs": kinds}
	}
	return c
}
