package props

import (
	"bytes"
	"fmt"
	"path/filepath"
	"strings"

	"github.com/glebziz/fs_db"
	"github.com/glebziz/fs_db/pkg/verif"

	"verifharness/internal/dbx"
	"verifharness/internal/refmodel"
	"verifharness/internal/rt"
	"verifharness/internal/seqrun"
)

func init() {
	p := Registry["C07"]
	p.Roles["orders"] = Role{N: func(t string) int { return tierN(t, 8, 96) }, Case: c07Orders}
	p.Rule += " Role orders: every sequential order of the six events Begin/write/Commit of two snapshot transactions on one key in which both have begun before either commits (the write of one may come after the Commit of the other, a transaction may stay completely idle between its Begin and the competitor's Commit), for every pair of levels from {RepeatableRead, Serializable}, on an existing, a deleted and a never-written key, writes being Set, Delete or Create-Write-Close (each transaction also writes a key of its own), other reads in between or not, inline and through the server: exactly the first Commit succeeds, the second fails with ErrTxSerialization and the key holds the winner's value, also for a ReadUncommitted transaction begun afterwards, which must not see the key only the loser wrote either."
}

// c07Orders enumerates the orders of B1 W1 C1 B2 W2 C2 with B<W<C per transaction and both
// Begins before the first Commit.
func c07Orders(tier string, seed int64, idx int, scratch string) rt.CaseResult {
	var c rt.CaseResult
	mode := dbx.Inline
	if idx%2 == 1 {
		mode = dbx.Grpc
	}
	env, err := dbx.Open(dbx.Options{Mode: mode, Dir: filepath.Join(scratch, "db")})
	if err != nil {
		c.Violate("open-failed", err.Error(), nil)
		return c
	}
	defer env.Close()
	var orders [][]string
	var gen func(cur []string, left map[string]int)
	events := [2][3]string{{"B1", "W1", "C1"}, {"B2", "W2", "C2"}}
	gen = func(cur []string, left map[string]int) {
		if len(cur) == 6 {
			orders = append(orders, append([]string(nil), cur...))
			return
		}
		for t := 0; t < 2; t++ {
			i := left[fmt.Sprint(t)]
			if i >= 3 {
				continue
			}
			ev := events[t][i]
			if ev[0] == 'C' && left[fmt.Sprint(1-t)] == 0 {
				continue // the other transaction has not begun yet
			}
			left[fmt.Sprint(t)]++
			gen(append(cur, ev), left)
			left[fmt.Sprint(t)]--
		}
	}
	gen(nil, map[string]int{"0": 0, "1": 0})
	n := 0
	for oi, order := range orders {
		for _, levels := range [][2]int{{2, 2}, {2, 3}, {3, 2}, {3, 3}} {
			for _, keyState := range []string{"existing", "never-written", "deleted"} {
				for _, writes := range [][2]string{{"set", "set"}, {"set", "delete"}, {"delete", "set"}, {"create", "set"}, {"set", "create"}} {
					n++
					// every plan is run once by the inline client and once through the server
					if half := int64(tierN(tier, 8, 96) / 2); (int64(n)+seed)%half != int64(idx/2) {
						continue
					}
					rt.Beat()
					readsBetween := n%3 == 0
					// keys of 40-140 bytes made of two- and three-byte runes after an ASCII prefix of
					// varying length: whatever byte offset a layer may cut a key at, some key has a
					// rune straddling it; three keys in four end in percent sequences (URL escapes, things fmt takes for verbs)
					key := fmt.Sprintf("o%d-%d-", idx, n) + strings.Repeat([]string{"é", "日", "ключ"}[n%3], 10+n%30) + []string{"", "x", "xy"}[n/3%3] + []string{"", "%d", "/2024%2F10/caf%C3%A9", "%w%v%s%!"}[n/7%4]
					plan := map[string]any{"seed": seed, "case": idx, "mode": modeName(mode), "order": order, "levels": levels, "key": keyState, "writes": writes, "reads_in_between": readsBetween}
					init := seqrun.Content(key+"-init", 12)
					switch keyState {
					case "existing":
						env.DB.Set(ctxBg, key, init)
					case "deleted":
						env.DB.Set(ctxBg, key, init)
						env.DB.Delete(ctxBg, key)
					}
					var txs [2]fs_db.Tx
					vals := [2][]byte{seqrun.Content(key+"-t1", 12), seqrun.Content(key+"-t2", 12)}
					var cerr [2]error
					var first = -1
					bad := false
					for _, ev := range order {
						t := int(ev[1] - '1')
						switch ev[0] {
						case 'B':
							txs[t], err = env.DB.Begin(ctxBg, verif.IsoLevel(levels[t]))
							if err != nil {
								c.Violate("begin-failed", err.Error(), plan)
								return c
							}
						case 'W':
							switch writes[t] {
							case "set":
								err = txs[t].Set(ctxBg, key, vals[t])
							case "create":
								var f fs_db.File
								f, err = txs[t].Create(ctxBg, key)
								if err == nil {
									_, err = f.Write(vals[t])
									if cerr := f.Close(); err == nil {
										err = cerr
									}
								}
								if err == nil {
									// the loser also writes a key of its own: nobody may ever see it
									err = txs[t].Set(ctxBg, key+"-only-"+ev[1:], vals[t])
								}
							default:
								err = txs[t].Delete(ctxBg, key)
							}
							if err == nil && writes[t] == "set" {
								err = txs[t].Set(ctxBg, key+"-only-"+ev[1:], vals[t])
							}
							if err != nil {
								c.Violate("write-in-transaction-failed", err.Error(), plan)
								return c
							}
						case 'C':
							cerr[t] = txs[t].Commit(ctxBg)
							if first < 0 {
								first = t
							}
						}
						if readsBetween {
							env.DB.Get(ctxBg, "unrelated")
						}
					}
					c.Evals++
					second := 1 - first
					switch {
					case cerr[first] != nil:
						c.Violate("first-committer-rejected class="+string(seqrun.Class(cerr[first])), fmt.Sprintf("order %v: the first Commit (transaction %d) failed: %v; nothing had been committed to the key since it began", order, first+1, cerr[first]), plan)
						bad = true
					case cerr[second] == nil:
						c.Violate("lost-update both-committed sequential-order", fmt.Sprintf("order %v, levels %v, key %s, writes %v: both Commits succeeded although both transactions had begun before either committed and both wrote the key", order, levels, keyState, writes), plan)
						bad = true
					case seqrun.Class(cerr[second]) != refmodel.TxSerial:
						c.Violate("second-committer-wrong-error class="+string(seqrun.Class(cerr[second])), fmt.Sprintf("order %v: the second Commit failed with %v, expected ErrTxSerialization", order, cerr[second]), plan)
						bad = true
					}
					if bad {
						return c
					}
					b, gerr := env.DB.Get(ctxBg, key)
					if writes[first] != "delete" && (gerr != nil || !bytes.Equal(b, vals[first])) || writes[first] == "delete" && seqrun.Class(gerr) != refmodel.NotFound {
						c.Violate("winner-not-in-effect sequential-order", fmt.Sprintf("order %v: after the two Commits the key reads %s (%v); the winner (transaction %d) did a %s", order, seqrun.Describe(b), gerr, first+1, writes[first]), plan)
						return c
					}
					// none of the loser's writes becomes visible - not to a ReadUncommitted reader either
					ru, err := env.DB.Begin(ctxBg, fs_db.IsoLevelReadUncommitted)
					if err != nil {
						c.Violate("begin-failed", err.Error(), plan)
						return c
					}
					rb, rerr := ru.Get(ctxBg, key)
					_, lerr := ru.Get(ctxBg, fmt.Sprintf("%s-only-%d", key, second+1))
					ru.Rollback(ctxBg)
					if writes[first] != "delete" && (rerr != nil || !bytes.Equal(rb, vals[first])) || writes[first] == "delete" && seqrun.Class(rerr) != refmodel.NotFound {
						c.Violate("loser-visible-to-read-uncommitted sequential-order", fmt.Sprintf("order %v: after the loser's Commit failed a ReadUncommitted transaction reads %s (%v) for the contended key; the winner (transaction %d) did a %s", order, seqrun.Describe(rb), rerr, first+1, writes[first]), plan)
						return c
					}
					if writes[second] != "delete" && seqrun.Class(lerr) != refmodel.NotFound {
						c.Violate("loser-visible-to-read-uncommitted sequential-order own-key", fmt.Sprintf("order %v: a key that only the loser wrote is readable by a ReadUncommitted transaction after the loser's Commit failed (%v)", order, lerr), plan)
						return c
					}
					c.AddDistinct(fmt.Sprintf("%s/order=%d/levels=%v/key=%s/writes=%v", modeName(mode), oi, levels, keyState, writes))
				}
			}
		}
	}
	c.Count("orders_enumerated", int64(len(orders)))
	if idx == 0 {
		c.Sample = map[string]any{"orders": len(orders), "first_orders": orders[:min(4, len(orders))]}
	}
	return c
}
