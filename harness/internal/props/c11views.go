package props

import (
	"bytes"
	"fmt"
	"path/filepath"
	"sync"
	"sync/atomic"

	"github.com/glebziz/fs_db"

	"verifharness/internal/dbx"
	"verifharness/internal/refmodel"
	"verifharness/internal/rt"
	"verifharness/internal/seqrun"
)

func init() {
	p := Registry["C11"]
	p.Roles["views"] = Role{N: func(t string) int { return tierN(t, 4, 32) }, Case: c11Views}
	p.Rule += " Role views: several goroutines read ONE key through ONE client handle at the same time, each with a different correct answer that does not change while they read: the owner of a transaction with an uncommitted value of 64 KiB - 1 MiB (its own write), an outside reader (the committed value), a snapshot transaction begun before the last commit (the value before it), a transaction that deleted the key (not found); and a single writer that must read back each of its own acknowledged Sets while others read the key. Same script through the inline and the gRPC client; every read is judged on its own."
}

func c11Views(tier string, seed int64, idx int, scratch string) rt.CaseResult {
	var c rt.CaseResult
	mode := dbx.Grpc
	if idx%4 == 3 {
		mode = dbx.Inline
	}
	env, err := dbx.Open(dbx.Options{Mode: mode, Dir: filepath.Join(scratch, "db")})
	if err != nil {
		c.Violate("open-failed", err.Error(), nil)
		return c
	}
	defer env.Close()
	size := []int{1 << 20, 64 << 10, 300 << 10, 1 << 20}[idx%4]
	replay := map[string]any{"seed": seed, "case": idx, "mode": modeName(mode), "value_bytes": size}
	fail := func(what, d string) { c.Violate(what+" mode="+modeName(mode), d, replay) }
	rounds := tierN(tier, 12, 40)
	for round := 0; round < rounds; round++ {
		rt.Beat()
		key := fmt.Sprintf("v%d", round%3)
		old := seqrun.Content(fmt.Sprintf("views-%d-%d-old", idx, round), size)
		committed := seqrun.Content(fmt.Sprintf("views-%d-%d-committed", idx, round), size)
		own := seqrun.Content(fmt.Sprintf("views-%d-%d-own", idx, round), size)
		if err := env.DB.Set(ctxBg, key, old); err != nil {
			fail("set-failed", err.Error())
			return c
		}
		snap, err1 := env.DB.Begin(ctxBg, fs_db.IsoLevelRepeatableRead)
		if err1 == nil {
			_, err1 = snap.Get(ctxBg, "unrelated") // the snapshot exists before the commit below
			err1 = nil
		}
		if err := env.DB.Set(ctxBg, key, committed); err != nil || err1 != nil {
			fail("set-failed", fmt.Sprint(err, err1))
			return c
		}
		owner, err2 := env.DB.Begin(ctxBg, fs_db.IsoLevelReadCommitted)
		deleter, err3 := env.DB.Begin(ctxBg, fs_db.IsoLevelSerializable)
		if err2 != nil || err3 != nil {
			fail("begin-failed", fmt.Sprint(err2, err3))
			return c
		}
		if err := owner.Set(ctxBg, key, own); err != nil {
			fail("set-failed", err.Error())
			return c
		}
		if err := deleter.Delete(ctxBg, key); err != nil {
			fail("delete-failed", err.Error())
			return c
		}
		type view struct {
			name string
			st   fs_db.Store
			want []byte
			nf   bool
		}
		views := []view{{"owner-of-uncommitted-write", owner, own, false}, {"outside-reader", env.DB, committed, false}, {"snapshot-begun-before-the-commit", snap, old, false}, {"transaction-that-deleted-the-key", deleter, nil, true}, {"outside-reader", env.DB, committed, false}}
		var wg sync.WaitGroup
		var ready atomic.Int32
		var mu sync.Mutex
		for vi, v := range views {
			wg.Add(1)
			go func(vi int, v view) {
				defer wg.Done()
				ready.Add(1)
				for int(ready.Load()) < len(views) {
				}
				for rep := 0; rep < 3; rep++ {
					b, err := v.st.Get(ctxBg, key)
					mu.Lock()
					c.Evals++
					switch {
					case v.nf && seqrun.Class(err) != refmodel.NotFound:
						c.Violate("concurrent-read-wrong-view view="+v.name+" mode="+modeName(mode), fmt.Sprintf("round %d: while %d readers with different views read %s through one handle, the %s got %s (%v), expected not found", round, len(views), key, v.name, seqrun.Describe(b), err), replay)
					case !v.nf && (err != nil || !bytes.Equal(b, v.want)):
						c.Violate("concurrent-read-wrong-view view="+v.name+" mode="+modeName(mode), fmt.Sprintf("round %d: while %d readers with different views read %s through one handle, the %s got %s (%v), expected %s", round, len(views), key, v.name, seqrun.Describe(b), err, seqrun.Describe(v.want)), replay)
					}
					mu.Unlock()
				}
			}(vi, v)
		}
		wg.Wait()
		snap.Rollback(ctxBg)
		owner.Rollback(ctxBg)
		deleter.Rollback(ctxBg)
		if len(c.Violations) > 0 {
			return c
		}
		// a single writer reads back each of its acknowledged Sets while others read the key
		stop := make(chan struct{})
		var rg sync.WaitGroup
		for g := 0; g < 3; g++ {
			rg.Add(1)
			go func() {
				defer rg.Done()
				for {
					select {
					case <-stop:
						return
					default:
						env.DB.Get(ctxBg, key)
					}
				}
			}()
		}
		for i := 0; i < 6; i++ {
			v := seqrun.Content(fmt.Sprintf("views-%d-%d-w%d", idx, round, i), size/4+i)
			if err := env.DB.Set(ctxBg, key, v); err != nil {
				fail("set-failed", err.Error())
				break
			}
			b, err := env.DB.Get(ctxBg, key)
			c.Evals++
			if err != nil || !bytes.Equal(b, v) {
				fail("own-acknowledged-write-not-read-back", fmt.Sprintf("round %d: the only writer of %s set %s and read %s (%v) right afterwards, while three other goroutines were reading the key through the same handle", round, key, seqrun.Describe(v), seqrun.Describe(b), err))
				break
			}
		}
		close(stop)
		rg.Wait()
		if len(c.Violations) > 0 {
			return c
		}
		c.AddDistinct(fmt.Sprintf("views/%s/size=%s", modeName(mode), lenClass(size)))
	}
	if idx == 0 {
		c.Sample = replay
	}
	return c
}
