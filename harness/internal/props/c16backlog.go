package props

import (
	"context"
	"fmt"
	"sync"
	"time"

	"github.com/glebziz/fs_db/pkg/verif"

	"verifharness/internal/conc"
	"verifharness/internal/rt"
	"verifharness/internal/seqrun"
)

func init() {
	p := Registry["C16"]
	p.Roles["s6backlog"] = Role{N: func(t string) int { return tierN(t, 12, 400) }, Case: c16Backlog}
	p.Rule += " S6 (role s6backlog): backlogs of 600 to 9000 deferred jobs: every worker is kept busy, then the burst is sent either by 1-4 outside senders or by a job running on a worker (a job that fans out follow-up jobs); all those Sends must return while the other workers are still held (decided logically: the burst finishes before the gates are opened, a watchdog of 30 s only ends a run that would never end), no Send may wait for room in the channel or in the deferred list, and after the gates open every job runs exactly once."
}

func c16Backlog(tier string, seed int64, idx int, scratch string) rt.CaseResult {
	var c rt.CaseResult
	rng := seqrun.Rng(seed, "C16b", idx)
	workers := 1 + rng.Intn(3)
	sd := []time.Duration{1, time.Microsecond, 20 * time.Microsecond}[rng.Intn(3)]
	e := &c16Env{workers: workers, pool: verif.NewPool(verif.PoolOptions{NumWorkers: workers, SendDuration: sd}), t0: time.Now()}
	tr := conc.NewTracer(false)
	tr.Install()
	defer conc.Uninstall()
	e.pool.Run(context.Background())
	m := []int{600, 1023, 1024, 1025, 1030, 1100, 2049, 4097, 9000}[idx%9] + rng.Intn(3)
	fromJob := idx/9%2 == 1 || idx%4 == 3
	replay := map[string]any{"seed": seed, "case": idx, "workers": workers, "send_duration": sd.String(), "burst": m, "sent_from_a_job": fromJob}
	var blockers []*c16Job
	nBlock := workers
	if fromJob {
		nBlock = workers - 1 // one worker runs the job that fans out
	}
	for i := 0; i < nBlock; i++ {
		j := e.newJob(true)
		blockers = append(blockers, j)
		e.send(j)
	}
	// the blockers have been taken by workers before the burst starts
	for deadline := time.Now().Add(5 * time.Second); int(e.running.Load()) < nBlock && time.Now().Before(deadline); {
		time.Sleep(100 * time.Microsecond)
	}
	done := make(chan struct{})
	burst := func(senders int) {
		var wg sync.WaitGroup
		for s := 0; s < senders; s++ {
			wg.Add(1)
			go func(s int) {
				defer wg.Done()
				for i := s; i < m; i += senders {
					if i%128 == 0 {
						rt.Beat()
					}
					e.send(e.newJob(false))
				}
			}(s)
		}
		wg.Wait()
	}
	if fromJob {
		e.pool.Send(context.Background(), verif.PoolEvent{Caller: "fan-out", Fn: func(ctx context.Context) error {
			burst(1)
			close(done)
			return nil
		}})
	} else {
		go func() { burst(1 + rng.Intn(4)); close(done) }()
	}
	prompt := true
	select {
	case <-done:
	case <-time.After(30 * time.Second):
		prompt = false
	}
	st := e.pool.VerifState()
	for _, b := range blockers {
		close(b.gate)
	}
	c.Evals = int64(m)
	if !prompt {
		what := "send-waited-for-free-worker large-backlog"
		if fromJob {
			what = "send-from-job-blocked large-backlog"
		}
		replay["jobs_sent_when_given_up"] = len(e.jobs)
		replay["pool_state"] = fmt.Sprintf("%+v", st)
		c.Violate(what, fmt.Sprintf("a burst of %d Sends (from a job: %v) with every other worker busy had not returned after 30 s: %d jobs handed over, pool state %+v", m, fromJob, len(e.jobs), st), replay)
		if fromJob {
			return c // the worker is stuck for good: nothing more can be learnt from this pool
		}
		<-done
	}
	if e.quiesce(&c, replay) {
		e.checkOnce(&c, replay, true)
	}
	c.AddDistinct(fmt.Sprintf("s6/burst=%d/from-job=%v/workers=%d", m/100*100, fromJob, workers))
	c.Count("jobs_deferred", tr.Count("wpool.send.timeout"))
	c.Count("largest_backlog_sent", int64(m))
	e.pool.Stop()
	if idx == 0 {
		c.Sample = replay
	}
	return c
}
