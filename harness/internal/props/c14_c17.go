package props

import (
	"bytes"
	"context"
	"fmt"
	"os"
	"path/filepath"
	"regexp"
	"sort"
	"strings"
	"time"
	"verifharness/internal/refmodel"

	"github.com/glebziz/fs_db"
	"github.com/glebziz/fs_db/pkg/verif"

	"verifharness/internal/conc"

	"verifharness/internal/dbx"
	"verifharness/internal/rt"
	"verifharness/internal/seqrun"
)

func init() {
	register(&Prop{
		ID: "C14", Level: "exploration",
		Rule:        "fault-free seeded histories (overwrites, deletes, rollbacks, commits aborted by a conflict, overwrites inside a transaction before commit, Create, SetReader, several roots, direct and deferred worker-pool path) run against the reference model; then all transactions are ended, background deletions drained (barrier jobs through the real pool + the pool's own state), a collector pass run and drained again, and the storage roots walked: the multiset of regular files must equal, by count and content hash, the multiset {Get(k) : k in GetKeys()}. Second phase: more garbage is produced while the workers are held busy, the database is closed with those deletions pending, reopened, drained, collected, drained and walked again. evaluations = histories x phases walked; distinct_nontrivial = distinct (history, kinds of garbage it produced) where at least one kind of garbage was produced and physically reclaimed",
		Assumptions: []string{"quiescence barrier (DESIGN 2.5)", "reference model refmodel"},
		Roles: map[string]Role{
			"main":       {N: func(t string) int { return tierN(t, 64, 4000) }, Case: c14Case},
			"concurrent": {N: func(t string) int { return tierN(t, 48, 1500) }, Case: c14Concurrent},
			"bigbatch":   {N: func(t string) int { return tierN(t, 4, 16) }, Case: c14BigBatch},
		},
	})
	register(&Prop{
		ID: "C17", Level: "exploration",
		Rule:        "long sequential histories with 1-3 roots and a directory limit of 100, 128, 150 or 260 (and 0, 1, 99 to exercise the clamp to 100): several hundred live keys so that directories fill up and rotate, delete waves followed by collector passes and drains so that rotated-out directories regain room, reopens; after EVERY step the tree below the roots is walked: every regular file lies exactly at root/<uuid>/<file>, every entry directly below a root is a UUID-named directory, no directory holds more than max(limit,100) entries, every root offers a directory to write to (the candidates the directory repository returns); a directory that regained room must be among the candidates and receive a file within 30 x candidates later writes; with two or more roots a final phase reopens the database with its last root taken out of the configuration, deletes, collects and writes again: everything stays readable and no new file may appear below the removed root. evaluations = steps after which the tree was checked; distinct_nontrivial = distinct (configuration, event) pairs among {rotation, re-activation of a directory, reuse of a re-activated directory, reopen scan}",
		Assumptions: []string{"the harness puts nothing else below the roots"},
		Roles: map[string]Role{
			"main":   {N: func(t string) int { return tierN(t, 8, 128) }, Case: c17Case},
			"regain": {N: func(t string) int { return tierN(t, 6, 96) }, Case: c17Regain},
		},
	})
}

// leakCheck compares the files on disk with what Get can return.
func leakCheck(c *rt.CaseResult, env *dbx.Env, phase string, replay map[string]any) bool {
	files, _, err := env.Walk(true)
	if err != nil {
		c.Inconclusive = append(c.Inconclusive, "walk: "+err.Error())
		return false
	}
	keys, err := env.DB.GetKeys(ctxBg)
	if err != nil {
		c.Violate("getkeys-failed-at-quiescence", err.Error(), replay)
		return false
	}
	want := map[string]int{}
	for _, k := range keys {
		b, err := env.DB.Get(ctxBg, k)
		if err != nil {
			c.Violate("listed-key-unreadable-at-quiescence", fmt.Sprintf("Get(%q): %v", k, err), replay)
			return false
		}
		want[dbx.Sum(b)]++
	}
	have := map[string]int{}
	for _, f := range files {
		have[f.Sum]++
	}
	var extra, missing []string
	for s, n := range have {
		if n > want[s] {
			for _, f := range files {
				if f.Sum == s {
					extra = append(extra, fmt.Sprintf("%s (%d bytes)", f.Rel, f.Size))
				}
			}
		}
	}
	for s, n := range want {
		if n > have[s] {
			missing = append(missing, s[:12])
		}
	}
	sort.Strings(extra)
	if len(extra) > 0 || len(missing) > 0 || len(files) != len(keys) {
		replay["files_on_disk"] = len(files)
		replay["live_keys"] = len(keys)
		replay["unreferenced_files"] = extra
		c.Violate("storage-leak phase="+phase, fmt.Sprintf("%s: %d content files on disk for %d readable keys; %d file(s) that no Get returns, %d content(s) missing", phase, len(files), len(keys), len(extra), len(missing)), replay)
		return false
	}
	return true
}

func quiesce(c *rt.CaseResult, env *dbx.Env, replay map[string]any) bool {
	for i := 0; i < 2; i++ {
		if err := env.Drain(); err != nil {
			c.Violate("drain-failed "+firstWords(err.Error(), 4), err.Error(), replay)
			return false
		}
		if err := env.Collect(); err != nil {
			c.Violate("collector-error", err.Error(), replay)
			return false
		}
	}
	if err := env.Drain(); err != nil {
		c.Violate("drain-failed "+firstWords(err.Error(), 4), err.Error(), replay)
		return false
	}
	if env.Stranded > 0 {
		c.Violate("cleanup-jobs-stranded deferred>0 flusher-gone", fmt.Sprintf("%d time(s) the worker pool held deferred cleanup jobs with no flusher to deliver them (state read twice, 2 ms apart, under the pool's list mutex): they are only executed if some later Send happens to time out, so on a quiet database their files stay", env.Stranded), replay)
		return false
	}
	return true
}

func c14Case(tier string, seed int64, idx int, scratch string) rt.CaseResult {
	var c rt.CaseResult
	rng := seqrun.Rng(seed, "C14", idx)
	p := seqrun.Profile{
		Steps: tierN(tier, 80, 200), Keys: txKeys, Lens: []int{8, 8, 3000, 40000}, MaxOpen: 3, TxBias: 55,
		TagPrefix: fmt.Sprintf("h%d-", idx),
		W:         map[string]int{"begin": 10, "set": 30, "delete": 8, "create": 4, "setreader": 4, "commit": 9, "rollback": 5, "collect": 2, "drain": 1, "get": 2, "latewrite": 3, "phantom": 1},
	}
	steps := seqrun.Generate(rng, p)
	eo := dbx.Options{Mode: dbx.Inline, Dir: filepath.Join(scratch, "db"), Roots: 1 + idx%3, SendDuration: sendDur(idx), NumWorkers: 1 + idx%2}
	if idx%4 == 3 {
		// through the gRPC server: commits and rollbacks arrive with request-scoped contexts
		// that are cancelled as soon as the handler returns
		eo.Mode = dbx.Grpc
	}
	env, err := dbx.Open(eo)
	if err != nil {
		c.Violate("open-failed", err.Error(), nil)
		return c
	}
	r := seqrun.NewRunner(env, seqrun.Options{})
	replay := map[string]any{"seed": seed, "case": idx, "steps": steps}
	defer func() { r.Env.Close() }()
	if m := r.RunSteps(steps); m != nil {
		c.Violate(m.Sig, m.Error(), replay)
		return c
	}
	garbage := map[string]bool{}
	written := map[string]int{}
	for _, s := range steps {
		switch s.Op {
		case "set", "setreader", "create":
			written[fmt.Sprintf("%d/%s", s.Actor, s.Key)]++
			if written[fmt.Sprintf("%d/%s", s.Actor, s.Key)] > 1 {
				if s.Actor < 0 {
					garbage["overwritten"] = true
				} else {
					garbage["superseded-in-tx"] = true
				}
			}
		case "delete":
			garbage["deleted"] = true
		case "rollback":
			garbage["rolled-back"] = true
		}
	}
	if r.Stats.ConflictCommit > 0 {
		garbage["conflict-aborted"] = true
	}
	if eo.Mode == dbx.Inline && idx%2 == 1 {
		// odd beginnings and ends: a Begin whose context is already done (if it gives a handle the
		// handle is rolled back; if it fails nothing of it may stay behind), and a transaction of a
		// level outside the four constants that writes, commits and is rolled back for good measure
		dead, cancel := context.WithCancel(ctxBg)
		cancel()
		if tx, err := r.Env.DB.Begin(dead, verif.IsoLevel(1+idx/2%3)); err == nil {
			tx.Set(ctxBg, txKeys[0], []byte("never committed"))
			if rerr := tx.Rollback(ctxBg); rerr != nil {
				c.Violate("rollback-failed after-begin-with-done-context", rerr.Error(), replay)
				return c
			}
		}
		odd := verif.IsoLevel([]int{4, 7, 255, -1}[idx/2%4])
		if tx, err := r.Env.DB.Begin(ctxBg, odd); err == nil {
			v := seqrun.Content(fmt.Sprintf("h%d-odd-level", idx), 64)
			serr := tx.Set(ctxBg, txKeys[1], v)
			cerr := tx.Commit(ctxBg)
			tx.Rollback(ctxBg)
			if serr == nil && cerr == nil {
				r.M.Write(refmodel.Autocommit, txKeys[1], string(v), false)
			}
			replay["transaction_with_unknown_level"] = fmt.Sprintf("level %d: Set %v, Commit %v", odd, serr, cerr)
		}
		// garbage made after that point must be collectable like any other
		for i := 0; i < 4; i++ {
			if m := r.Do(len(steps), seqrun.Step{Op: "set", Actor: refmodel.Autocommit, Key: txKeys[i%2], Tag: fmt.Sprintf("h%d-after-odd-%d", idx, i), Len: 30}); m != nil {
				c.Violate(m.Sig, m.Error(), replay)
				return c
			}
		}
		garbage["overwritten"] = true
		c.Count("histories_with_odd_begins_and_ends", 1)
	}
	// end every open transaction; through the server the first attempt is made with a context that
	// is already cancelled (the call does not reach the server): the real end that follows must not
	// be skipped, or the transaction stays registered and pins the collector's horizon
	for _, id := range r.M.OpenTxs() {
		if eo.Mode == dbx.Grpc {
			if tx := r.Txs[id]; tx != nil {
				dead, cancel := context.WithCancel(ctxBg)
				cancel()
				if derr := tx.Rollback(dead); derr == nil {
					// a Rollback that says nil has ended the transaction: tell the model
					r.M.Rollback(id)
					garbage["rolled-back"] = true
					continue
				}
			}
		}
		if m := r.Do(len(steps), seqrun.Step{Op: "rollback", Actor: id}); m != nil {
			c.Violate(m.Sig, m.Error(), replay)
			return c
		}
		garbage["rolled-back"] = true
	}
	if idx%2 == 0 {
		// another, fresh database is opened in the same process while this one still has garbage to
		// collect (the sequence counter is shared by the process: it must not move backwards)
		decoy, derr := dbx.Open(dbx.Options{Mode: dbx.Inline, Dir: filepath.Join(scratch, "decoy")})
		if derr != nil {
			c.Violate("open-failed decoy", derr.Error(), nil)
			return c
		}
		decoy.DB.Set(ctxBg, "decoy", []byte("x"))
		defer decoy.Close()
		replay["second_database_opened_before_collection"] = true
	}
	filesBefore, _, _ := r.Env.Walk(false)
	if !quiesce(&c, r.Env, replay) {
		return c
	}
	c.Evals++
	if !leakCheck(&c, r.Env, "after-drain-and-collect", replay) {
		return c
	}
	filesAfter, _, _ := r.Env.Walk(false)
	// phase 2: garbage pending at Close
	pool := verif.ContainerPool(r.Env.C)
	for i := 0; i < r.Env.Cfg.WPool.NumWorkers; i++ {
		pool.Send(ctxBg, verif.PoolEvent{Caller: "verif.hold", Fn: func(ctx context.Context) error { <-ctx.Done(); return nil }})
	}
	more := []seqrun.Step{{Op: "begin", Actor: 9000, Level: 1}}
	for i, k := range txKeys {
		more = append(more, seqrun.Step{Op: "set", Actor: 9000, Key: k, Tag: fmt.Sprintf("h%d-p2a%d", idx, i), Len: 100},
			seqrun.Step{Op: "set", Actor: 9000, Key: k, Tag: fmt.Sprintf("h%d-p2b%d", idx, i), Len: 100},
			seqrun.Step{Op: "set", Actor: -1, Key: k, Tag: fmt.Sprintf("h%d-p2c%d", idx, i), Len: 100})
	}
	if idx%2 == 0 {
		more = append(more, seqrun.Step{Op: "commit", Actor: 9000})
	} else {
		more = append(more, seqrun.Step{Op: "rollback", Actor: 9000})
	}
	more = append(more, seqrun.Step{Op: "begin", Actor: 9001, Level: 2}, seqrun.Step{Op: "set", Actor: 9001, Key: txKeys[0], Tag: fmt.Sprintf("h%d-left-open", idx), Len: 50},
		// ... and a key that has never had a committed version
		seqrun.Step{Op: "set", Actor: 9001, Key: fmt.Sprintf("brand-new-%d", idx), Tag: fmt.Sprintf("h%d-left-open-new", idx), Len: 50},
		seqrun.Step{Op: "create", Actor: 9001, Key: fmt.Sprintf("brand-new-too-%d", idx), Tag: fmt.Sprintf("h%d-left-open-new2", idx), Len: 5000, Pieces: []int{100}},
		seqrun.Step{Op: "reopen", Actor: -1})
	for i, s := range more {
		if m := r.Do(len(steps)+1+i, s); m != nil {
			replay["phase2_steps"] = more
			c.Violate(m.Sig+" phase=2", m.Error(), replay)
			return c
		}
	}
	if !quiesce(&c, r.Env, replay) {
		return c
	}
	c.Evals++
	replay["phase2_steps"] = more
	if !leakCheck(&c, r.Env, "after-reopen-with-pending-deletions", replay) {
		return c
	}
	if m := r.ProbeAll(len(steps)+len(more), seqrun.Step{Op: "reopen", Actor: -1}); m != nil {
		c.Violate(m.Sig, m.Error(), replay)
		return c
	}
	var kinds []string
	for k := range garbage {
		kinds = append(kinds, k)
	}
	sort.Strings(kinds)
	if len(kinds) > 0 && len(filesAfter) < len(filesBefore) {
		c.AddDistinct(hashSteps(steps) + "/" + strings.Join(kinds, "+"))
	}
	for _, k := range kinds {
		c.Count("histories_with_garbage_"+k, 1)
	}
	c.Count("files_reclaimed_phase1", int64(len(filesBefore)-len(filesAfter)))
	if idx == 0 {
		c.Sample = map[string]any{"steps": sampleSteps(steps, 10), "garbage_kinds": kinds, "files_before_quiescence": len(filesBefore), "files_after": len(filesAfter)}
	}
	return c
}

var uuidRe = regexp.MustCompile(`^[0-9a-f]{8}-[0-9a-f]{4}-[0-9a-f]{4}-[0-9a-f]{4}-[0-9a-f]{12}$`)

func c17Case(tier string, seed int64, idx int, scratch string) rt.CaseResult {
	var c rt.CaseResult
	rng := seqrun.Rng(seed, "C17", idx)
	limits := []uint64{100, 150, 0, 1, 99, 128, 100, 260}
	limit := limits[idx%len(limits)]
	eff := int(limit)
	if eff < 100 {
		eff = 100
	}
	big := 1
	if eff > 100 {
		big = 2 // enough files to fill directories of the larger limits too
	}
	nroots := 1 + idx%3
	eo := dbx.Options{Mode: dbx.Inline, Dir: filepath.Join(scratch, "db"), Roots: nroots, MaxDirCount: limit, MaxDirExplicit: true}
	if idx%2 == 1 {
		// roots configured with non-canonical spellings (trailing slash, doubled slash, ./ segment)
		spell := []func(string) string{
			func(p string) string { return p + "/" },
			func(p string) string { return filepath.Dir(p) + "//" + filepath.Base(p) },
			func(p string) string { return filepath.Dir(p) + "/./" + filepath.Base(p) },
		}
		for i := 0; i < nroots; i++ {
			eo.RootPaths = append(eo.RootPaths, spell[(idx/2+i)%len(spell)](filepath.Join(eo.Dir, fmt.Sprintf("root%d", i))))
		}
	}
	env, err := dbx.Open(eo)
	if err != nil {
		c.Violate("open-failed", err.Error(), nil)
		return c
	}
	cfgName := fmt.Sprintf("roots=%d/limit=%d", nroots, limit)
	// build the history: fill, delete wave + collect, refill, reopen, ...
	var steps []seqrun.Step
	nk := 0
	live := []string{}
	add := func(n int) {
		for i := 0; i < n; i++ {
			k := fmt.Sprintf("key%05d", nk)
			nk++
			live = append(live, k)
			steps = append(steps, seqrun.Step{Op: "set", Actor: -1, Key: k, Tag: fmt.Sprintf("c%d-%s", idx, k), Len: 6})
		}
	}
	wave := func(n int) {
		rng.Shuffle(len(live), func(i, j int) { live[i], live[j] = live[j], live[i] })
		for i := 0; i < n && len(live) > 0; i++ {
			steps = append(steps, seqrun.Step{Op: "delete", Actor: -1, Key: live[0]})
			live = live[1:]
		}
		steps = append(steps, seqrun.Step{Op: "collect", Actor: -1}, seqrun.Step{Op: "drain", Actor: -1}, seqrun.Step{Op: "mark-reactivation", Actor: -1})
	}
	scale := tierN(tier, 1, 3) * big
	add(120 * nroots * scale)
	add(140 * scale)
	if idx%4 >= 2 {
		// reopen while several directories of a root are completely full, then keep writing
		if idx%4 == 3 {
			add(eff * 3 * nroots) // at least three more full directories per root
		}
		steps = append(steps, seqrun.Step{Op: "reopen", Actor: -1})
		add(25 * scale)
	}
	wave(90 * scale)
	add(150 * scale)
	steps = append(steps, seqrun.Step{Op: "reopen", Actor: -1})
	add(60 * scale)
	wave(150 * scale)
	add(120 * scale)
	// overwrites (garbage removed by the collector) and a transaction
	for i := 0; i < 40*scale && i < len(live); i++ {
		steps = append(steps, seqrun.Step{Op: "set", Actor: -1, Key: live[i], Tag: fmt.Sprintf("c%d-ow%d", idx, i), Len: 6})
	}
	steps = append(steps, seqrun.Step{Op: "collect", Actor: -1}, seqrun.Step{Op: "drain", Actor: -1}, seqrun.Step{Op: "reopen", Actor: -1})
	add(30 * scale)

	r := seqrun.NewRunner(env, seqrun.Options{})
	defer func() { r.Env.Close() }()
	replay := map[string]any{"seed": seed, "case": idx, "config": cfgName, "steps_total": len(steps)}
	seenDirs := map[string]bool{}
	fullOnce := map[string]bool{} // directories that were at the limit at some point
	type regainState struct{ count, writes, cands int }
	regained := map[string]*regainState{} // directories that regained room and have not received a file yet
	roots := env.Cfg.Storage.RootDirs
	for i, s := range steps {
		rt.Beat() // every step is followed by a walk of the whole tree
		if s.Op != "mark-reactivation" {
			if m := r.Do(i, s); m != nil {
				replay["step"] = s
				c.Violate(m.Sig, m.Error(), replay)
				return c
			}
		}
		files, dirs, err := r.Env.Walk(false)
		if err != nil {
			c.Inconclusive = append(c.Inconclusive, "walk: "+err.Error())
			return c
		}
		c.Evals++
		replay["step_idx"], replay["step"] = i, s.String()
		for _, f := range files {
			parts := strings.Split(f.Rel, "/")
			if len(parts) != 2 || !uuidRe.MatchString(parts[0]) {
				c.Violate("content-file-misplaced", fmt.Sprintf("after step %d (%s): content file %s/%s is not directly inside a UUID-named directory directly inside a root", i, s, f.Root, f.Rel), replay)
				return c
			}
		}
		perRoot := map[string]int{}
		for d, ents := range dirs {
			isRoot := false
			for _, rt0 := range roots {
				if filepath.Clean(rt0) == d {
					isRoot = true
					for _, e := range ents {
						if !uuidRe.MatchString(e) {
							c.Violate("foreign-entry-under-root", fmt.Sprintf("after step %d: %s/%s is not a UUID-named directory", i, d, e), replay)
							return c
						}
					}
				}
			}
			if isRoot {
				continue
			}
			perRoot[filepath.Dir(d)]++
			if len(ents) > eff {
				c.Violate("directory-over-limit", fmt.Sprintf("after step %d (%s): directory %s holds %d entries, limit %d (configured %d)", i, s, d, len(ents), eff, limit), replay)
				return c
			}
			if len(ents) >= eff {
				fullOnce[d] = true
			}
			if !seenDirs[d] {
				seenDirs[d] = true
				if len(seenDirs) > nroots {
					c.AddDistinct(cfgName + "/rotation")
					c.Count("rotations", 1)
				}
			}
		}
		switch s.Op {
		case "mark-reactivation":
			// deletions have drained: every directory that was full and now has room must be a candidate again
			cands, err := verif.DirCandidates(ctxBg, r.Env.C)
			if err != nil {
				c.Violate("dir-candidates-error", err.Error(), replay)
				return c
			}
			cset := map[string]bool{}
			freeOf := map[string]uint64{}
			for _, d := range cands {
				cset[d.Path()] = true
				freeOf[d.Path()] = d.Free
			}
			for d, ents := range dirs {
				if fullOnce[d] && len(ents) < eff && len(ents) > 0 {
					if !cset[d] {
						c.Violate("regained-directory-not-offered", fmt.Sprintf("after the delete wave at step %d directory %s has %d of %d entries but is not among the directories offered for writing %v", i, d, len(ents), eff, keysOfSet(cset)), replay)
						return c
					}
					if freeOf[d] == 0 {
						c.Violate("regained-directory-offered-without-free-space", fmt.Sprintf("after the delete wave at step %d directory %s (%d of %d entries) is offered for writing with 0 bytes of free space, so no write can ever choose it", i, d, len(ents), eff), replay)
						return c
					}
					c.AddDistinct(cfgName + "/re-activation")
					c.Count("reactivated_directories", 1)
					if _, ok := regained[d]; !ok {
						regained[d] = &regainState{count: len(ents), cands: len(cands)}
					}
				}
			}
			for _, rt0 := range roots {
				has := false
				for _, d := range cands {
					if filepath.Clean(d.Root) == filepath.Clean(rt0) {
						has = true
					}
				}
				if !has {
					c.Violate("root-offers-no-directory", fmt.Sprintf("after step %d root %s offers no directory to write to", i, rt0), replay)
					return c
				}
			}
		case "set":
			for d, st := range regained {
				cnt := len(dirs[d])
				if cnt > st.count {
					delete(regained, d)
					c.AddDistinct(cfgName + "/reuse-of-re-activated-directory")
					c.Count("reactivated_directories_reused", 1)
					continue
				}
				st.count = cnt // deletions may still lower it
				st.writes++
				// the directory is picked uniformly among the candidates: after 30*n writes the
				// probability of never being picked is below 1e-12
				if st.writes > 30*st.cands && cnt < eff {
					c.Violate("regained-directory-never-used", fmt.Sprintf("directory %s regained room (%d of %d entries), was one of %d candidates and received no file in %d writes", d, cnt, eff, st.cands, st.writes), replay)
					return c
				}
			}
		case "reopen":
			c.AddDistinct(cfgName + "/reopen-scan")
			roots = r.Env.Cfg.Storage.RootDirs
		}
	}
	// final probe of everything against the model
	if m := r.ProbeAll(len(steps), seqrun.Step{Op: "getkeys", Actor: -1}); m != nil {
		c.Violate(m.Sig, m.Error(), replay)
		return c
	}
	c.Count("directories_seen", int64(len(seenDirs)))
	if idx == 0 {
		c.Sample = map[string]any{"config": cfgName, "steps": len(steps), "directories_seen": len(seenDirs)}
	}
	if nroots >= 2 && !c17RetiredRoot(&c, r, idx, live, replay) {
		return c
	}
	if eff > 100 && !c17LoweredLimit(&c, r, idx, replay) {
		return c
	}
	return c
}

// c17LoweredLimit: the database is reopened with a smaller directory limit (100). Directories
// that already hold more than that cannot shrink, but they must not receive anything more, and
// no other directory may exceed the new limit.
func c17LoweredLimit(c *rt.CaseResult, r *seqrun.Runner, idx int, replay map[string]any) bool {
	old := r.Env
	if err := old.Close(); err != nil {
		c.Violate("close-failed", err.Error(), replay)
		return false
	}
	eo := old.Opt
	eo.RootPaths = append([]string(nil), old.Cfg.Storage.RootDirs...)
	eo.MaxDirCount, eo.MaxDirExplicit = 100, true
	env, err := dbx.Open(eo)
	if err != nil {
		c.Violate("open-failed after-lowering-the-limit", err.Error(), replay)
		return false
	}
	r.Env = env
	r.M.Reopen()
	r.Txs = map[int]fs_db.Tx{}
	_, dirs0, err := env.Walk(false)
	if err != nil {
		c.Inconclusive = append(c.Inconclusive, "walk: "+err.Error())
		return false
	}
	start := map[string]int{}
	for d, es := range dirs0 {
		start[d] = len(es)
	}
	for i := 0; i < 230; i++ {
		s := seqrun.Step{Op: "set", Actor: -1, Key: fmt.Sprintf("lower%d-%d", idx, i), Tag: fmt.Sprintf("c%d-lw%d", idx, i), Len: 5}
		if m := r.Do(200000+i, s); m != nil {
			replay["step"] = s
			c.Violate(m.Sig+" after-lowering-the-limit", m.Error(), replay)
			return false
		}
		_, dirs, err := env.Walk(false)
		if err != nil {
			c.Inconclusive = append(c.Inconclusive, "walk: "+err.Error())
			return false
		}
		for d, es := range dirs {
			if !uuidRe.MatchString(filepath.Base(d)) {
				continue
			}
			lim := 100
			if start[d] > lim {
				lim = start[d]
			}
			if len(es) > lim {
				c.Violate("directory-over-limit after-lowering-the-limit", fmt.Sprintf("the database was reopened with a limit of 100; directory %s held %d entries then and holds %d after %d more writes", d, start[d], len(es), i+1), replay)
				return false
			}
		}
		c.Evals++
	}
	c.AddDistinct("limit-lowered-at-reopen")
	return true
}

// c17RetiredRoot: the database is reopened with its last root taken out of the configuration.
// Files that lie there may be read and removed; deletions re-activate directories there; but no
// new content file may be created below a root that is not configured.
func c17RetiredRoot(c *rt.CaseResult, r *seqrun.Runner, idx int, live []string, replay map[string]any) bool {
	old := r.Env
	roots := old.Cfg.Storage.RootDirs
	retired := filepath.Clean(roots[len(roots)-1])
	listRetired := func() map[string]bool {
		out := map[string]bool{}
		filepath.WalkDir(retired, func(p string, d os.DirEntry, err error) error {
			if err == nil && d.Type().IsRegular() {
				out[p] = true
			}
			return nil
		})
		return out
	}
	if err := old.Close(); err != nil {
		c.Violate("close-failed", err.Error(), replay)
		return false
	}
	eo := old.Opt
	eo.RootPaths = append([]string(nil), roots[:len(roots)-1]...)
	env, err := dbx.Open(eo)
	if err != nil {
		c.Violate("open-failed after-removing-a-root", err.Error(), replay)
		return false
	}
	r.Env = env
	r.M.Reopen()
	r.Txs = map[int]fs_db.Tx{}
	before := listRetired()
	var steps []seqrun.Step
	for i := 0; i < 60 && i < len(live); i++ {
		steps = append(steps, seqrun.Step{Op: "delete", Actor: -1, Key: live[i]})
	}
	steps = append(steps, seqrun.Step{Op: "collect", Actor: -1}, seqrun.Step{Op: "drain", Actor: -1})
	for i := 0; i < 80; i++ {
		steps = append(steps, seqrun.Step{Op: "set", Actor: -1, Key: fmt.Sprintf("retired%d-%d", idx, i), Tag: fmt.Sprintf("c%d-rt%d", idx, i), Len: 5})
	}
	for i, s := range steps {
		if m := r.Do(100000+i, s); m != nil {
			replay["step"] = s
			c.Violate(m.Sig+" after-removing-a-root", m.Error(), replay)
			return false
		}
		for p := range listRetired() {
			if !before[p] {
				replay["step"] = s
				c.Violate("file-created-below-unconfigured-root", fmt.Sprintf("after the database was reopened without root %s, step %d (%s %q) created %s there", retired, i, s.Op, s.Key, p), replay)
				return false
			}
		}
		c.Evals++
	}
	if m := r.ProbeAll(100000+len(steps), seqrun.Step{Op: "getkeys", Actor: -1}); m != nil {
		c.Violate(m.Sig+" after-removing-a-root", m.Error(), replay)
		return false
	}
	c.AddDistinct(fmt.Sprintf("roots=%d/root-removed-from-configuration", len(roots)))
	c.Count("files_left_below_the_removed_root", int64(len(before)))
	return true
}

func keysOfSet(m map[string]bool) []string {
	var out []string
	for k := range m {
		out = append(out, filepath.Base(k))
	}
	sort.Strings(out)
	return out
}

// c14Concurrent: the garbage is produced by concurrent clients (autocommit, transactions of all
// levels, a collector actor, the scheduled collector, deferred worker-pool path); afterwards every
// transaction has ended, the pool is drained, a collector pass runs, and the roots must hold
// exactly the live contents.
func c14Concurrent(tier string, seed int64, idx int, scratch string) rt.CaseResult {
	var c rt.CaseResult
	rt.SetWatchdogLimit(60 * time.Second)
	rng := seqrun.Rng(seed, "C14c", idx)
	keys := []string{"x", "y", "z"}[:1+rng.Intn(3)]
	p := genProgram(rng, fmt.Sprintf("g%d-", idx), 3+rng.Intn(2), 12+rng.Intn(10), keys, true, []int{0, 1, 2, 3}, idx%2 == 0)
	sd := time.Millisecond
	if idx%3 == 0 {
		sd = 1
	}
	env, err := dbx.Open(dbx.Options{Mode: dbx.Inline, Dir: filepath.Join(scratch, "db"), GCPeriod: time.Duration(2+rng.Intn(8)) * time.Millisecond, SendDuration: sd, NumWorkers: 1 + rng.Intn(3), Roots: 1 + idx%2})
	if err != nil {
		c.Violate("open-failed", err.Error(), nil)
		return c
	}
	defer env.Close()
	tr := conc.NewTracer(false)
	tr.Perturb(20+rng.Intn(40), 50+rng.Intn(300), uint64(seed)*211+uint64(idx))
	if idx%3 == 0 {
		// Sends are deferred at once here: hold every flusher that found the list empty for a
		// moment, so that cleanup jobs get deferred while it is on its way out
		tr.SlowPoint("wpool.flusher.empty", time.Duration(200+rng.Intn(800))*time.Microsecond)
	}
	tr.Install()
	ops := execProgram(env, tr, p, nil) // every transaction of the program is committed or rolled back by its client
	conc.Uninstall()
	replay := map[string]any{"seed": seed, "case": idx, "program": p}
	for _, o := range ops {
		if o.Kind != "get" && o.Kind != "commit" && o.Class != "ok" {
			c.Violate(fmt.Sprintf("unexpected-error op=%s class=%s", o.Kind, o.Class), o.Err, replay)
			return c
		}
	}
	if !quiesce(&c, env, replay) {
		return c
	}
	c.Evals++
	if leakCheck(&c, env, "after-concurrent-run", replay) {
		c.AddDistinct(fmt.Sprintf("concurrent/%d-ops/%d-hook-events", len(ops), tr.Count("cleaner.deletefile.done")))
		c.Count("files_removed_by_cleaner_in_concurrent_runs", tr.Count("cleaner.deletefile.done"))
	}
	if idx == 0 {
		c.Sample = map[string]any{"concurrent_program_clients": len(p.Clients), "ops": len(ops)}
	}
	return c
}

// c14BigBatch: one transaction end / one reopen produces more than 1000 unreachable contents at
// once (the cleaner works in chunks of 1000).
func c14BigBatch(tier string, seed int64, idx int, scratch string) rt.CaseResult {
	var c rt.CaseResult
	rt.SetWatchdogLimit(3 * time.Minute)
	n := 1100 + 250*(idx%4)
	var steps []seqrun.Step
	steps = append(steps, seqrun.Step{Op: "begin", Actor: 0, Level: 1 + idx%2})
	for i := 0; i < n; i++ {
		steps = append(steps, seqrun.Step{Op: "set", Actor: 0, Key: fmt.Sprintf("b%04d", i%(n/2+idx%3)), Tag: fmt.Sprintf("bb%d-%d", idx, i), Len: 5})
	}
	end := []string{"rollback", "commit", "reopen", "overwrites-one-pass"}[idx%4]
	switch end {
	case "overwrites-one-pass":
		// more than a thousand committed versions that are superseded by autocommit overwrites:
		// ONE collector pass (and the drain of its deletions) must reclaim all of them
		steps = steps[:0]
		for round := 0; round < 90+idx%40; round++ {
			for k := 0; k < 14; k++ {
				steps = append(steps, seqrun.Step{Op: "set", Actor: -1, Key: fmt.Sprintf("ow%02d", k), Tag: fmt.Sprintf("bb%d-%d-%d", idx, round, k), Len: 5})
			}
		}
	case "rollback", "commit":
		steps = append(steps, seqrun.Step{Op: end, Actor: 0})
	default:
		steps = append(steps, seqrun.Step{Op: "commit", Actor: 0})
		// overwrite everything once more without collecting, then reopen: Load hands > 1000 files to the cleaner
		for i := 0; i < n/2; i++ {
			steps = append(steps, seqrun.Step{Op: "set", Actor: -1, Key: fmt.Sprintf("b%04d", i), Tag: fmt.Sprintf("bb%d-o%d", idx, i), Len: 5})
		}
		steps = append(steps, seqrun.Step{Op: "reopen", Actor: -1})
	}
	env, err := dbx.Open(dbx.Options{Mode: dbx.Inline, Dir: filepath.Join(scratch, "db"), SendDuration: sendDur(idx)})
	if err != nil {
		c.Violate("open-failed", err.Error(), nil)
		return c
	}
	r := seqrun.NewRunner(env, seqrun.Options{})
	defer func() { r.Env.Close() }()
	replay := map[string]any{"seed": seed, "case": idx, "writes_in_transaction": n, "end": end}
	for i, s := range steps {
		if i%200 == 0 {
			rt.Beat()
		}
		if m := r.Do(i, s); m != nil {
			c.Violate(m.Sig, m.Error(), replay)
			return c
		}
	}
	if end == "overwrites-one-pass" {
		// exactly one pass: drain what is pending, collect once, drain its deletions
		if err := r.Env.Drain(); err != nil {
			c.Violate("drain-failed "+firstWords(err.Error(), 4), err.Error(), replay)
			return c
		}
		if err := r.Env.Collect(); err != nil {
			c.Violate("collector-error", err.Error(), replay)
			return c
		}
		if err := r.Env.Drain(); err != nil {
			c.Violate("drain-failed "+firstWords(err.Error(), 4), err.Error(), replay)
			return c
		}
	} else if !quiesce(&c, r.Env, replay) {
		return c
	}
	c.Evals++
	if leakCheck(&c, r.Env, "after-big-batch-"+end, replay) {
		c.AddDistinct(fmt.Sprintf("bigbatch/%s/%d", end, n))
	}
	c.Sample = map[string]any{"scenario": "more than 1000 unreachable contents in one batch", "writes": n, "end": end}
	return c
}

// c17Regain: the same directories go through "full, taken out of use, lose files, offered again,
// full again ..." several times within one life of the process (and once more after a reopen).
// After every collector pass + drain each directory that has room must be among the directories
// offered for writing with free space, and it must fill up again.
func c17Regain(tier string, seed int64, idx int, scratch string) rt.CaseResult {
	var c rt.CaseResult
	rng := seqrun.Rng(seed, "C17r", idx)
	nroots := 1 + idx%2
	if idx%6 == 4 {
		nroots = 9 // many roots: more directories registered at once than any small bound
	}
	eff := 100
	eo := dbx.Options{Mode: dbx.Inline, Dir: filepath.Join(scratch, "db"), Roots: nroots, MaxDirCount: 100, MaxDirExplicit: true}
	if idx%3 == 2 {
		// the server application takes the directory limit as configured (it does not raise small
		// limits the way inline.Open does): directories of 1, 5, 7 and 12 entries
		eff = []int{5, 1, 7, 12}[idx/3%4]
		eo.Mode, eo.NoValid, eo.MaxDirCount = dbx.Grpc, true, uint64(eff)
	}
	if nroots > 1 && idx%4 < 2 {
		// sibling roots whose paths are string prefixes of one another ("vol", "volx", "volxx"):
		// a directory belongs to the root it lies directly in, not to the first root its path starts with
		for i := 0; i < nroots; i++ {
			eo.RootPaths = append(eo.RootPaths, filepath.Join(eo.Dir, "vol"+strings.Repeat("x", i)))
		}
	}
	if nroots > 1 && idx%4 == 3 {
		// sibling roots whose paths differ in letter case only ("vol", "Vol", "vOl", ...): on this
		// file system they are different directories, each of them a root of its own
		for i := 0; i < nroots; i++ {
			name := []byte("vol")
			for b := 0; b < 3; b++ {
				if i>>b&1 == 1 {
					name[b] -= 'a' - 'A'
				}
			}
			eo.RootPaths = append(eo.RootPaths, filepath.Join(eo.Dir, string(name)+strings.Repeat("2", i/8)))
		}
	}
	env, err := dbx.Open(eo)
	if err != nil {
		c.Violate("open-failed", err.Error(), nil)
		return c
	}
	r := seqrun.NewRunner(env, seqrun.Options{})
	defer func() { r.Env.Close() }()
	cfgName := fmt.Sprintf("regain/%s/roots=%d/limit=%d", modeName(eo.Mode), nroots, eff)
	replay := map[string]any{"seed": seed, "case": idx, "config": cfgName}
	nk, step := 0, 0
	dirOf := map[string]string{} // key -> directory of its content file (learned from the walks)
	var live []string
	do := func(s seqrun.Step) bool {
		step++
		if step%50 == 0 {
			rt.Beat()
		}
		if m := r.Do(step, s); m != nil {
			replay["step"] = s.String()
			c.Violate(m.Sig, m.Error(), replay)
			return false
		}
		c.Evals++
		return true
	}
	add := func(n int) bool {
		for i := 0; i < n; i++ {
			k := fmt.Sprintf("rk%05d", nk)
			nk++
			live = append(live, k)
			if !do(seqrun.Step{Op: "set", Actor: -1, Key: k, Tag: fmt.Sprintf("r%d-%s", idx, k), Len: 5}) {
				return false
			}
		}
		return true
	}
	counts := func() (map[string]int, bool) {
		files, dirs, err := r.Env.Walk(false)
		if err != nil {
			c.Inconclusive = append(c.Inconclusive, "walk: "+err.Error())
			return nil, false
		}
		for _, f := range files {
			parts := strings.Split(f.Rel, "/")
			if len(parts) != 2 || !uuidRe.MatchString(parts[0]) {
				c.Violate("content-file-misplaced", fmt.Sprintf("content file %s/%s is not directly inside a UUID-named directory directly inside a root", f.Root, f.Rel), replay)
				return nil, false
			}
		}
		out := map[string]int{}
		for d, ents := range dirs {
			isRoot := false
			for _, rt0 := range r.Env.Cfg.Storage.RootDirs {
				isRoot = isRoot || filepath.Clean(rt0) == d
			}
			if isRoot {
				continue
			}
			out[d] = len(ents)
			if len(ents) > eff {
				c.Violate("directory-over-limit", fmt.Sprintf("directory %s holds %d entries, limit %d", d, len(ents), eff), replay)
				return nil, false
			}
		}
		return out, true
	}
	// mkdirFault: writes until the creation of a directory is attempted, which fails once
	// (injected; the write that hits it fails); after that every write must succeed again and
	// every configured root must have a directory on offer.
	mkdirFault := func(tag string) bool {
		fired := false
		verif.SetOpFault(func(op, path string) error {
			if op == "os.mkdirall" && !fired {
				fired = true
				return fmt.Errorf("injected mkdir failure")
			}
			return nil
		})
		for i := 0; i < 3*eff && !fired; i++ { // until a directory is replaced
			k := fmt.Sprintf("fk%s-%d", tag, i)
			err := r.Env.DB.Set(ctxBg, k, []byte("x"))
			if err == nil {
				r.M.Write(refmodel.Autocommit, k, "x", false)
				nk++
			}
		}
		verif.SetOpFault(nil)
		if !fired {
			return true
		}
		for i := 0; i < 5; i++ {
			k := fmt.Sprintf("after-fault%s-%d", tag, i)
			if err := r.Env.DB.Set(ctxBg, k, []byte("y")); err != nil {
				c.Violate("root-offers-no-directory after-mkdir-failure", fmt.Sprintf("%s: the creation of a directory failed once (injected); the write %d after it still fails: %v", tag, i, err), replay)
				return false
			}
			r.M.Write(refmodel.Autocommit, k, "y", false)
			nk++
		}
		if cands, err := verif.DirCandidates(ctxBg, r.Env.C); err == nil {
			have := map[string]bool{}
			for _, d := range cands {
				have[d.Root] = true
			}
			for _, root := range r.Env.Cfg.Storage.RootDirs {
				c.Evals++
				if !have[root] {
					c.Violate("root-offers-no-directory after-mkdir-failure other-roots-take-the-writes", fmt.Sprintf("%s: the creation of a directory failed once (injected); five writes later the root %s still has no directory on offer (the writes went to the other roots)", tag, root), replay)
					return false
				}
			}
		}
		c.Count("mkdir_faults_survived", 1)
		return true
	}
	// the very first replacement of the very first directory fails: no other directory exists yet
	if eo.Mode == dbx.Inline {
		if err := r.Env.DB.Set(ctxBg, "first", []byte("x")); err == nil {
			r.M.Write(refmodel.Autocommit, "first", "x", false)
			nk++
		}
		if !mkdirFault("first") {
			return c
		}
	}
	cycles := tierN(tier, 3, 5)
	lastRegained := map[string]int{}
	for cycle := 0; cycle < cycles; cycle++ {
		// "every root always offers a directory to write to" - also after the creation of a new
		// directory has failed once: one injected mkdir failure per cycle (the write that hits it
		// fails), after which every write must succeed again
		if cycle > 0 && eo.Mode == dbx.Inline && !mkdirFault(fmt.Sprintf("c%d", cycle)) {
			return c
		}
		// a file from Create that stays open (nothing written yet) while the directories fill up
		// and rotate; it is written and closed after the fill
		// a transaction writes a few files before the fill; it is rolled back after it, with a
		// context that is already cancelled (a request that has timed out): its files then sit in
		// directories that have filled up and been replaced meanwhile, and giving those directories
		// back must not depend on the caller's context
		var pendingTx fs_db.Tx
		if eo.Mode == dbx.Inline {
			if tx, terr := r.Env.DB.Begin(ctxBg, fs_db.IsoLevelReadCommitted); terr == nil {
				for i := 0; i < 15; i++ {
					tx.Set(ctxBg, fmt.Sprintf("txk%d-%d", cycle, i), []byte("t"))
				}
				pendingTx = tx
			}
		}
		filesBefore, _, _ := r.Env.Walk(false)
		held, herr := r.Env.DB.Create(ctxBg, fmt.Sprintf("held%d", cycle))
		if herr != nil {
			c.Violate("create-failed role=regain", herr.Error(), replay)
			return c
		}
		// Create returns before its storing side has chosen a directory and made the entry; until
		// then the open file is an operation running concurrently with whatever is called next,
		// and the bound is only promised for operations issued one at a time. So wait until the
		// entry is there (at most two seconds; an implementation that makes it later is judged by
		// what the directories look like when it finally does)
		for w := 0; w < 400; w++ {
			if fs, _, _ := r.Env.Walk(false); len(fs) > len(filesBefore) {
				break
			}
			time.Sleep(5 * time.Millisecond)
		}
		// fill: write until every existing directory is full and a fresh one has been started
		for round := 0; round < 40; round++ {
			if !add(25) {
				return c
			}
			cnt, ok := counts()
			if !ok {
				return c
			}
			full, open := 0, 0
			for _, n := range cnt {
				if n >= eff {
					full++
				} else {
					open++
				}
			}
			if full >= 2*nroots && open <= nroots && round >= 2 {
				break
			}
		}
		hv := seqrun.Content(fmt.Sprintf("r%d-held%d", idx, cycle), 9)
		_, herr = held.Write(hv)
		if cerr := held.Close(); herr == nil {
			herr = cerr
		}
		if herr != nil {
			c.Violate("create-write-close-error role=regain", fmt.Sprintf("a file that was open while %d keys were written: %v", nk, herr), replay)
			return c
		}
		if b, gerr := r.Env.DB.Get(ctxBg, fmt.Sprintf("held%d", cycle)); gerr != nil || !bytes.Equal(b, hv) {
			c.Violate("stored-content-differs role=regain", fmt.Sprintf("the file that was open during the fill reads %s (%v)", seqrun.Describe(b), gerr), replay)
			return c
		}
		if cnt, ok := counts(); !ok {
			return c
		} else {
			for d, n := range lastRegained {
				if cnt[d] <= n {
					c.Violate("regained-directory-never-used", fmt.Sprintf("cycle %d: directory %s regained room (%d of %d entries) and received no file although writing went on until %d more keys were stored", cycle, d, n, eff, nk), replay)
					return c
				}
				c.Count("regained_directories_reused", 1)
			}
		}
		lastRegained = map[string]int{}
		// which key lives where: content files carry no key, so delete by sampling keys and
		// looking at which directories lost files
		before, ok := counts()
		if !ok {
			return c
		}
		if pendingTx != nil {
			dead, cancel := context.WithCancel(ctxBg)
			cancel()
			if err := pendingTx.Rollback(dead); err != nil {
				// the call may refuse a dead context; then the transaction is ended properly
				pendingTx.Rollback(ctxBg)
			}
		}
		rng.Shuffle(len(live), func(i, j int) { live[i], live[j] = live[j], live[i] })
		ndel := 12 + rng.Intn(20)
		for i := 0; i < ndel && len(live) > 0; i++ {
			if !do(seqrun.Step{Op: "delete", Actor: -1, Key: live[0]}) {
				return c
			}
			live = live[1:]
		}
		if !do(seqrun.Step{Op: "collect", Actor: -1}) || !do(seqrun.Step{Op: "drain", Actor: -1}) {
			return c
		}
		if cycle == cycles-1 {
			// the last regain is checked after a reopen as well
			if !do(seqrun.Step{Op: "reopen", Actor: -1}) {
				return c
			}
		}
		after, ok := counts()
		if !ok {
			return c
		}
		cands, err := verif.DirCandidates(ctxBg, r.Env.C)
		if err != nil {
			c.Violate("dir-candidates-error", err.Error(), replay)
			return c
		}
		cset := map[string]uint64{}
		for _, d := range cands {
			cset[d.Path()] = d.Free + 1
		}
		regained := 0
		for d, n := range after {
			if before[d] >= eff && n < eff && n > 0 {
				regained++
				lastRegained[d] = n
				replay["cycle"] = cycle
				if cset[d] == 0 {
					c.Violate("regained-directory-not-offered", fmt.Sprintf("cycle %d: directory %s was full, lost files through deletions and a collector pass (%d of %d entries now) but is not among the directories offered for writing", cycle, d, n, eff), replay)
					return c
				}
				if cset[d] == 1 {
					c.Violate("regained-directory-offered-without-free-space", fmt.Sprintf("cycle %d: directory %s (%d of %d entries) is offered for writing with 0 bytes of free space", cycle, d, n, eff), replay)
					return c
				}
			}
		}
		c.Count("regained_directories", int64(regained))
		if regained > 0 {
			c.AddDistinct(fmt.Sprintf("%s/cycle=%d", cfgName, cycle))
		}
		_ = dirOf
	}
	// everything written is still readable (the held files are known to the harness only)
	for cycle := 0; cycle < cycles; cycle++ {
		r.M.Write(refmodel.Autocommit, fmt.Sprintf("held%d", cycle), string(seqrun.Content(fmt.Sprintf("r%d-held%d", idx, cycle), 9)), false)
	}
	if m := r.ProbeAll(step, seqrun.Step{Op: "getkeys", Actor: -1}); m != nil {
		c.Violate(m.Sig, m.Error(), replay)
		return c
	}
	if idx == 0 {
		c.Sample = map[string]any{"config": cfgName, "cycles": cycles, "keys_written": nk}
	}
	return c
}
