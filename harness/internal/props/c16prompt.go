package props

import (
	"context"
	"fmt"
	"time"

	"github.com/glebziz/fs_db/pkg/verif"

	"verifharness/internal/rt"
	"verifharness/internal/seqrun"
)

func init() {
	p := Registry["C16"]
	p.Roles["s7prompt"] = Role{N: func(t string) int { return tierN(t, 6, 96) }, Case: c16Prompt, Procs: 4}
	p.Rule += " S7 (role s7prompt): with every worker held, 40-120 Sends are issued one after the other with SendDuration 1-3 ms; each of them may wait for its SendDuration and no longer, however many Sends timed out before it. The burst is timed against a calibration run in the same process at the same moment (the same number of timer waits of SendDuration, measured right before and right after): a burst that takes more than ten times the slower calibration plus two seconds is measured again on a fresh pool and reported (send-not-prompt) if it is slow again, unless the two calibrations differ by more than a factor of five (machine load changed: inconclusive)."
}

// c16Prompt: a burst that looks slow is measured a second time on a fresh pool; only two slow
// bursts in a row are reported (a stall of the whole machine during one burst is not the pool's).
func c16Prompt(tier string, seed int64, idx int, scratch string) rt.CaseResult {
	first := c16PromptOnce(tier, seed, idx, 0)
	if len(first.Violations) == 0 {
		return first
	}
	second := c16PromptOnce(tier, seed, idx, 1)
	if len(second.Violations) == 0 {
		second.Count("slow_bursts_not_repeated", 1)
		return second
	}
	return second
}

func c16PromptOnce(tier string, seed int64, idx int, attempt int) rt.CaseResult {
	var c rt.CaseResult
	rng := seqrun.Rng(seed, "C16p", idx)
	workers := 1 + rng.Intn(3)
	sd := time.Duration(1+idx%3) * time.Millisecond
	n := 40 + 40*(idx%3)
	e := &c16Env{workers: workers, pool: verif.NewPool(verif.PoolOptions{NumWorkers: workers, SendDuration: sd}), t0: time.Now()}
	e.pool.Run(context.Background())
	replay := map[string]any{"seed": seed, "case": idx, "workers": workers, "send_duration": sd.String(), "sends": n, "attempt": attempt}
	var blockers []*c16Job
	for i := 0; i < workers; i++ {
		j := e.newJob(true)
		blockers = append(blockers, j)
		e.send(j)
	}
	for deadline := time.Now().Add(5 * time.Second); int(e.running.Load()) < workers && time.Now().Before(deadline); {
		time.Sleep(100 * time.Microsecond)
	}
	calibrate := func() time.Duration {
		t := time.Now()
		for i := 0; i < n; i++ {
			tm := time.NewTimer(sd)
			<-tm.C
		}
		return time.Since(t)
	}
	c1 := calibrate()
	done := make(chan time.Duration, 1)
	go func() {
		t := time.Now()
		for i := 0; i < n; i++ {
			rt.Beat()
			e.send(e.newJob(false))
		}
		done <- time.Since(t)
	}()
	limit := 10*c1 + 2*time.Second
	var took time.Duration
	late := false
	select {
	case took = <-done:
	case <-time.After(limit):
		late = true
	}
	c2 := calibrate()
	for _, b := range blockers {
		close(b.gate)
	}
	if late {
		took = limit + <-done
	}
	slower := max(c1, c2)
	replay["burst"], replay["calibration_before"], replay["calibration_after"] = took.String(), c1.String(), c2.String()
	c.Evals = int64(n)
	switch {
	case took <= 10*slower+2*time.Second:
		c.AddDistinct(fmt.Sprintf("s7/sd=%s/sends=%d", sd, n))
	case c2 > 5*c1 || c1 > 5*c2:
		c.Inconclusive = append(c.Inconclusive, fmt.Sprintf("s7prompt: machine load changed during the burst (calibrations %s and %s, burst %s)", c1, c2, took))
	default:
		c.Violate("send-not-prompt waits-grow-with-earlier-timeouts", fmt.Sprintf("%d consecutive Sends with every worker busy and SendDuration %s took %s; the same number of timer waits of %s took %s before and %s after the burst in the same process", n, sd, took, sd, c1, c2), replay)
	}
	if e.quiesce(&c, replay) {
		e.checkOnce(&c, replay, true)
	}
	e.pool.Stop()
	if idx == 0 {
		c.Sample = replay
	}
	return c
}
