package props

import (
	"bytes"
	"fmt"
	"path/filepath"
	"time"

	"github.com/glebziz/fs_db"
	"github.com/glebziz/fs_db/pkg/verif"

	"verifharness/internal/dbx"
	"verifharness/internal/refmodel"
	"verifharness/internal/rt"
	"verifharness/internal/seqrun"
)

func init() {
	p := Registry["C13"]
	p.Roles["outage"] = Role{N: func(t string) int { return tierN(t, 4, 32) }, Case: c13Outage}
	p.Rule += " Role outage (gRPC through a TCP forwarder that can be cut): the connection is lost exactly when Rollback or Commit is sent (the server keeps running and reconnecting works at once). Whenever the call returned nil the transaction is finished: every further call through the handle fails with ErrTxNotFound, a rolled-back write is visible to nobody (ReadUncommitted included), a committed one to everybody, completely. When it returned an error the call is repeated until it succeeds or reports ErrTxNotFound, after which the same holds; a commit that failed on the way is visible completely or not at all."
}

func c13Outage(tier string, seed int64, idx int, scratch string) rt.CaseResult {
	var c rt.CaseResult
	env, err := dbx.Open(dbx.Options{Mode: dbx.Grpc, Dir: filepath.Join(scratch, "db"), Proxy: true})
	if err != nil {
		c.Violate("open-failed", err.Error(), nil)
		return c
	}
	defer env.Close()
	for round := 0; round < tierN(tier, 8, 24); round++ {
		rt.Beat()
		level := (round + idx) % 4
		end := []string{"rollback", "commit"}[(round/4+idx)%2]
		cutAt := int64([]int{0, 1, 9, 40}[round%4]) // bytes of the request that still get through
		replay := map[string]any{"seed": seed, "case": idx, "round": round, "level": level, "end": end, "bytes_forwarded_before_the_cut": cutAt}
		k1, k2 := fmt.Sprintf("o%d-%d-a", idx, round), fmt.Sprintf("o%d-%d-b", idx, round)
		v := seqrun.Content(k1, 20)
		tx, err := env.DB.Begin(ctxBg, verif.IsoLevel(level))
		if err != nil {
			c.Violate("begin-failed", err.Error(), replay)
			return c
		}
		if err := tx.Set(ctxBg, k1, v); err == nil {
			err = tx.Set(ctxBg, k2, v)
		}
		if err != nil {
			c.Violate("write-in-transaction-failed", err.Error(), replay)
			return c
		}
		env.CutAfter(cutAt)
		do := func() error {
			if end == "rollback" {
				return tx.Rollback(ctxBg)
			}
			return tx.Commit(ctxBg)
		}
		first := do()
		cut := env.CutFired()
		replay["first_result"], replay["connection_cut"] = fmt.Sprint(first), cut
		c.Evals++
		ended := first == nil
		for try := 0; !ended && try < 200; try++ {
			err := do()
			if err == nil || seqrun.Class(err) == refmodel.TxNotFound {
				ended = true
				break
			}
			time.Sleep(10 * time.Millisecond)
		}
		if !ended {
			c.Inconclusive = append(c.Inconclusive, fmt.Sprintf("outage: the %s could not be completed within two seconds after the cut", end))
			return c
		}
		// the cut may also fire a moment after the end call has returned (on a frame the client
		// sends once it has its answer): a call that fails with a transport error, i.e. with none of
		// the sentinels, is repeated until the connection is there again
		stable := func(f func() ([]byte, error)) ([]byte, error) {
			var b []byte
			var err error
			for try := 0; try < 200; try++ {
				b, err = f()
				if err == nil || seqrun.Class(err) != refmodel.OtherErr {
					return b, err
				}
				time.Sleep(10 * time.Millisecond)
			}
			return b, err
		}
		// the handle is finished
		_, gerr := stable(func() ([]byte, error) { return tx.Get(ctxBg, k1) })
		_, serr := stable(func() ([]byte, error) { return nil, tx.Set(ctxBg, k1+"-late", v) })
		if seqrun.Class(gerr) == refmodel.OtherErr || seqrun.Class(serr) == refmodel.OtherErr {
			c.Inconclusive = append(c.Inconclusive, fmt.Sprintf("outage: calls after the cut kept failing with transport errors for two seconds (%v / %v)", gerr, serr))
			return c
		}
		c.Evals += 2
		if seqrun.Class(gerr) != refmodel.TxNotFound || seqrun.Class(serr) != refmodel.TxNotFound {
			c.Violate(fmt.Sprintf("transaction-alive-after-%s-returned-nil connection-lost-during-the-call", end), fmt.Sprintf("the connection was cut while %s was sent (first result: %v); after %s had returned nil, Get through the handle gives %v and Set %v (expected ErrTxNotFound for both)", end, first, end, gerr, serr), replay)
			return c
		}
		var ru fs_db.Tx
		for try := 0; try < 200; try++ {
			if ru, err = env.DB.Begin(ctxBg, fs_db.IsoLevelReadUncommitted); err == nil {
				break
			}
			time.Sleep(10 * time.Millisecond)
		}
		if err != nil {
			c.Inconclusive = append(c.Inconclusive, "outage: Begin kept failing after the cut: "+err.Error())
			return c
		}
		b1, e1 := stable(func() ([]byte, error) { return ru.Get(ctxBg, k1) })
		b2, e2 := stable(func() ([]byte, error) { return ru.Get(ctxBg, k2) })
		_, e3 := stable(func() ([]byte, error) { return ru.Get(ctxBg, k1+"-late") })
		ru.Rollback(ctxBg)
		if seqrun.Class(e1) == refmodel.OtherErr || seqrun.Class(e2) == refmodel.OtherErr || seqrun.Class(e3) == refmodel.OtherErr {
			c.Inconclusive = append(c.Inconclusive, fmt.Sprintf("outage: reads after the cut kept failing with transport errors (%v / %v / %v)", e1, e2, e3))
			return c
		}
		c.Evals += 3
		has1, has2 := e1 == nil && bytes.Equal(b1, v), e2 == nil && bytes.Equal(b2, v)
		none := seqrun.Class(e1) == refmodel.NotFound && seqrun.Class(e2) == refmodel.NotFound
		switch {
		case seqrun.Class(e3) != refmodel.NotFound:
			c.Violate("late-write-visible connection-lost-during-the-end", fmt.Sprintf("a Set through the finished handle is visible to a ReadUncommitted reader (%v)", e3), replay)
			return c
		case end == "rollback" && !none:
			c.Violate("rolled-back-write-visible connection-lost-during-the-call", fmt.Sprintf("after Rollback returned nil (first attempt: %v) a ReadUncommitted reader reads %s (%v) and %s (%v)", first, seqrun.Describe(b1), e1, seqrun.Describe(b2), e2), replay)
			return c
		case end == "commit" && first == nil && !(has1 && has2):
			c.Violate("acknowledged-commit-not-in-effect connection-lost-during-the-call", fmt.Sprintf("Commit returned nil; the keys read %s (%v) and %s (%v)", seqrun.Describe(b1), e1, seqrun.Describe(b2), e2), replay)
			return c
		case end == "commit" && !(has1 && has2) && !none:
			c.Violate("commit-partly-in-effect connection-lost-during-the-call", fmt.Sprintf("after a Commit that lost its connection the keys read %s (%v) and %s (%v): one of two", seqrun.Describe(b1), e1, seqrun.Describe(b2), e2), replay)
			return c
		}
		c.AddDistinct(fmt.Sprintf("outage/%s/level=%d/cut=%v/first-ok=%v", end, level, cut, first == nil))
	}
	if idx == 0 {
		c.Sample = map[string]any{"scenario": "connection cut while Rollback / Commit is sent"}
	}
	return c
}
