package props

import "verifharness/internal/rt"

func init() {
	p := Registry["C17"]
	p.Roles["firstwrites"] = Role{N: func(t string) int { return tierN(t, 4, 48) }, Case: c05FreshStart}
	p.Rule += " Role firstwrites (C05's role freshstart, here for the clause 'every root always offers a directory to write to'): the very first writes into brand-new databases, 2-12 at once released by a spin barrier, while no root has a directory yet: every one of them must succeed."
	p.Roles["offers"] = Role{N: func(t string) int { return tierN(t, 4, 96) }, Case: func(tier string, seed int64, idx int, scratch string) rt.CaseResult {
		return c06RotationWindow(seed, idx, scratch)
	}}
	p.Rule += " Role offers (the steered window of C06, here for the clause 'every root always offers a directory to write to'): the only directory of the only root holds exactly the limit; writer A replaces it, writer B, which has looked at the roots before, is steered by hook gates to read the directories between A's removal of the full directory and A's creation of the new one; both Sets must succeed and both values must be readable - where the selection is atomic the order is unreachable and the gates time out (recorded as such)."
}
