package props

import (
	"context"
	"errors"
	"fmt"
	"io"
	"os"
	"path/filepath"
	"regexp"
	"runtime"
	"sort"
	"strings"
	"sync"
	"sync/atomic"
	"syscall"
	"time"

	"github.com/glebziz/fs_db"
	"github.com/glebziz/fs_db/pkg/verif"

	"verifharness/internal/dbx"
	"verifharness/internal/rt"
	"verifharness/internal/seqrun"
)

func init() {
	register(&Prop{
		ID: "C15", Level: "exploration",
		Rule:        "the Go race detector observes the real code (harness built with -race, GORACE halt_on_error=0 log_path=...) under four program families, with no synchronising instrumentation (no recording hook handler, thread-local operation logs merged after the join): P1 cold start (goroutines released together right after Open, each with a different first operation, on fresh handles), P2 steady mixed workload (autocommit, all four levels, Create, GetReader, GetKeys, collector actor, scheduled collector every 2 ms, deferred worker-pool path), P3 the gRPC server with several clients in one instrumented process, P4 Create with many small writes. Every 'WARNING: DATA RACE' block and every 'fatal error:' is parsed; a report counts when one of its two access stacks has an fs_db frame (fs_db code or its use of a dependency); reports are de-duplicated by the pair of innermost fs_db functions. evaluations = client operations executed under the detector; distinct_nontrivial = distinct overlapping operation-kind pairs (from the thread-local logs)",
		Assumptions: []string{"Go race detector: no false positives on Go synchronisation primitives; a clean run is not a proof of race freedom"},
		Roles: map[string]Role{
			"p1cold":   {N: func(t string) int { return tierN(t, 30, 1500) }, Case: c15Case("p1"), Race: true, Env: raceEnv()},
			"p2steady": {N: func(t string) int { return tierN(t, 6, 320) }, Case: c15Case("p2"), Race: true, Env: raceEnv()},
			"p3server": {N: func(t string) int { return tierN(t, 3, 160) }, Case: c15Case("p3"), Race: true, Env: raceEnv()},
			"p4create": {N: func(t string) int { return tierN(t, 3, 160) }, Case: c15Case("p4"), Race: true, Env: raceEnv()},
			"p5faulty": {N: func(t string) int { return tierN(t, 4, 240) }, Case: c15Case("p5"), Race: true, Env: raceEnv()},
			"p6twodbs": {N: func(t string) int { return tierN(t, 3, 160) }, Case: c15Case("p6"), Race: true, Env: raceEnv()},
			"p9reopen": {N: func(t string) int { return tierN(t, 2, 32) }, Case: c15Case("p9"), Race: true, Env: raceEnv()},
			"p8dirs":   {N: func(t string) int { return tierN(t, 2, 48) }, Case: c15Case("p8"), Race: true, Env: raceEnv()},
			"p7batch":  {N: func(t string) int { return tierN(t, 8, 48) }, Case: c15Case("p7"), Race: true, Env: raceEnv()},
		},
	})
}

func raceLogBase() string { return filepath.Join(rt.ScratchBase(), "racelogs", "race") }

func raceEnv() []string {
	return []string{"GORACE=halt_on_error=0 exitcode=0 log_path=" + raceLogBase()}
}

type tlog struct {
	kind       string
	start, end time.Duration
}

var raceOffsets = map[string]int64{}

// readNewRaceReports returns the report text appended to this process's race log since the last call.
func readNewRaceReports() string {
	p := fmt.Sprintf("%s.%d", raceLogBase(), os.Getpid())
	b, err := os.ReadFile(p)
	if err != nil {
		return ""
	}
	off := raceOffsets[p]
	if int64(len(b)) <= off {
		return ""
	}
	raceOffsets[p] = int64(len(b))
	return string(b[off:])
}

var frameFn = regexp.MustCompile(`^  ([^\s(][^\n]*?)\(\)$`)

type raceReport struct {
	Text   string
	Stacks [][]string // function names per stack (access 1, access 2, then goroutine creation stacks)
}

func parseRaceReports(txt string) []raceReport {
	var out []raceReport
	for _, blk := range strings.Split(txt, "==================") {
		if !strings.Contains(blk, "WARNING: DATA RACE") {
			continue
		}
		r := raceReport{Text: strings.TrimSpace(blk)}
		var cur []string
		flush := func() {
			if cur != nil {
				r.Stacks = append(r.Stacks, cur)
			}
			cur = nil
		}
		for _, ln := range strings.Split(blk, "\n") {
			t := strings.TrimRight(ln, " ")
			switch {
			case strings.HasPrefix(t, "Write at") || strings.HasPrefix(t, "Read at") || strings.HasPrefix(t, "Previous write at") || strings.HasPrefix(t, "Previous read at") || strings.HasPrefix(t, "Goroutine ") || strings.HasPrefix(t, "Atomic ") || strings.HasPrefix(t, "Previous atomic"):
				flush()
				cur = []string{}
			default:
				if m := frameFn.FindStringSubmatch(t); m != nil && cur != nil {
					// drop type arguments: they may mention fs_db types inside dependency frames
					cur = append(cur, typeArgs.ReplaceAllString(m[1], ""))
				}
			}
		}
		flush()
		out = append(out, r)
	}
	return out
}

var lineNo = regexp.MustCompile(`:\d+`)
var typeArgs = regexp.MustCompile(`\[[^\]]*\]`)

func innermost(stack []string, pred func(string) bool) string {
	for _, f := range stack {
		if pred(f) {
			return f
		}
	}
	return ""
}

func isFsdb(f string) bool { return strings.Contains(f, "github.com/glebziz/fs_db") }
func isHarness(f string) bool {
	return strings.HasPrefix(f, "verifharness/") || strings.HasPrefix(f, "main.")
}

func classifyRace(r raceReport) (sig string, counts bool) {
	if len(r.Stacks) < 2 {
		return "unparsed-report", true
	}
	a, b := r.Stacks[0], r.Stacks[1]
	fa, fb := innermost(a, isFsdb), innermost(b, isFsdb)
	if fa == "" && fb == "" {
		if len(a) > 0 && len(b) > 0 && isHarness(a[0]) && isHarness(b[0]) {
			return "harness-race " + a[0] + " / " + b[0], false
		}
		return "no-fs_db-frame", false
	}
	short := func(f string) string {
		f = strings.TrimPrefix(f, "github.com/glebziz/fs_db/")
		f = regexp.MustCompile(`\[[^\]]*\]`).ReplaceAllString(f, "")
		return lineNo.ReplaceAllString(f, "")
	}
	p := []string{short(fa), short(fb)}
	sort.Strings(p)
	return "data-race " + p[0] + " | " + p[1], true
}

func c15Case(prog string) func(string, int64, int, string) rt.CaseResult {
	return func(tier string, seed int64, idx int, scratch string) rt.CaseResult {
		var c rt.CaseResult
		os.MkdirAll(filepath.Dir(raceLogBase()), 0o755)
		readNewRaceReports() // discard anything from before this case
		// perturbation without shared state
		verif.SetHandler(func(string, string) {
			if time.Now().UnixNano()&31 == 0 {
				runtime.Gosched()
			}
		})
		defer verif.SetHandler(nil)
		var logs [][]tlog
		switch prog {
		case "p1":
			logs = c15Cold(&c, seed, idx, scratch)
		case "p2":
			logs = c15Steady(&c, seed, idx, scratch, dbx.Inline, tierN(tier, 700, 1500), false)
		case "p3":
			logs = c15Steady(&c, seed, idx, scratch, dbx.Grpc, tierN(tier, 500, 800), false)
		case "p5":
			// the same workload with faults: the error paths run concurrently too
			m := dbx.Inline
			if idx%2 == 1 {
				m = dbx.Grpc
			}
			logs = c15Steady(&c, seed, idx, scratch, m, tierN(tier, 500, 900), true)
		case "p4":
			logs = c15Create(&c, seed, idx, scratch)
		case "p7":
			logs = c15BigBatch(&c, seed, idx, scratch)
		case "p8":
			logs = c15Dirs(&c, seed, idx, scratch)
		case "p9":
			logs = c15Reopen(&c, seed, idx, scratch)
		case "p6":
			// two (three) databases in one process, each used by its own goroutines at the same time:
			// whatever fs_db keeps per process (sequence counter, pools, caches) is shared by them
			ndb := 2 + idx%2
			parts := make([][][]tlog, ndb)
			subs := make([]rt.CaseResult, ndb)
			var wg sync.WaitGroup
			for d := 0; d < ndb; d++ {
				wg.Add(1)
				go func(d int) {
					defer wg.Done()
					m := dbx.Inline
					if d == 2 {
						m = dbx.Grpc
					}
					parts[d] = c15Steady(&subs[d], seed, idx*10+2*d+1, filepath.Join(scratch, fmt.Sprintf("db%d", d)), m, tierN(tier, 350, 700), false)
				}(d)
			}
			wg.Wait()
			for d := 0; d < ndb; d++ {
				c.Violations = append(c.Violations, subs[d].Violations...)
				logs = append(logs, parts[d]...)
			}
		}
		for _, l := range logs {
			c.Evals += int64(len(l))
		}
		for i := range logs {
			for j := i + 1; j < len(logs); j++ {
				for _, x := range logs[i] {
					for _, y := range logs[j] {
						if x.start < y.end && y.start < x.end {
							a, b := x.kind, y.kind
							if a > b {
								a, b = b, a
							}
							c.AddDistinct(prog + ":" + a + "||" + b)
						}
					}
				}
			}
		}
		for _, d := range c.Distinct {
			c.Observe("overlapping operation-kind pairs under the race detector", d)
		}
		txt := readNewRaceReports()
		if strings.Contains(txt, "fatal error:") {
			c.Violate("fatal-error "+firstWords(txt[strings.Index(txt, "fatal error:"):], 8), "the runtime reported a fatal error under the race detector", map[string]any{"log": tailStr(txt, 20000)})
		}
		for _, r := range parseRaceReports(txt) {
			sig, counts := classifyRace(r)
			c.Count("race_reports_total", 1)
			if !counts {
				c.Count("race_reports_not_counted:"+firstWords(sig, 1), 1)
				if strings.HasPrefix(sig, "harness-race") {
					c.Inconclusive = append(c.Inconclusive, "race inside the harness itself: "+sig)
				}
				continue
			}
			c.Violate(sig, "the race detector reported unsynchronised conflicting accesses with an fs_db frame on the stack", map[string]any{"program": prog, "case": idx, "report": r.Text})
		}
		if idx == 0 {
			c.Sample = map[string]any{"program": prog, "goroutines": len(logs), "ops_first_goroutine": len(logs[0])}
		}
		return c
	}
}

// c15Cold: goroutines released together right after Open, each with a different first operation.
func c15Cold(c *rt.CaseResult, seed int64, idx int, scratch string) [][]tlog {
	env, err := dbx.Open(dbx.Options{Mode: dbx.Inline, Dir: filepath.Join(scratch, "db"), GCPeriod: 2 * time.Millisecond})
	if err != nil {
		c.Violate("open-failed", err.Error(), nil)
		return [][]tlog{{}}
	}
	defer env.Close()
	firsts := []string{"set", "begin", "get", "getkeys", "create", "delete", "setreader", "beginrr"}
	// rotate so that different pairs meet first
	k := 3 + idx%4
	logs := make([][]tlog, k)
	start := make(chan struct{})
	t0 := time.Now()
	var wg sync.WaitGroup
	for g := 0; g < k; g++ {
		wg.Add(1)
		go func(g int) {
			defer wg.Done()
			kind := firsts[(idx+g*3)%len(firsts)]
			<-start
			for rep := 0; rep < 3; rep++ {
				s := time.Since(t0)
				c15Op(env.DB, kind, fmt.Sprintf("k%d", g%2), fmt.Sprintf("c%d-g%d-%d", idx, g, rep))
				logs[g] = append(logs[g], tlog{kind, s, time.Since(t0)})
			}
		}(g)
	}
	close(start)
	wg.Wait()
	return logs
}

func c15Op(db fs_db.DB, kind, key, tag string) {
	switch kind {
	case "set":
		db.Set(ctxBg, key, seqrun.Content(tag, 3000))
	case "setreader":
		db.SetReader(ctxBg, key, strings.NewReader(string(seqrun.Content(tag, 40000))))
	case "get":
		db.Get(ctxBg, key)
	case "getreader":
		if rc, err := db.GetReader(ctxBg, key); err == nil {
			io.Copy(io.Discard, rc)
			rc.Close()
		}
	case "getkeys":
		db.GetKeys(ctxBg)
	case "delete":
		db.Delete(ctxBg, key)
	case "create":
		if f, err := db.Create(ctxBg, key); err == nil {
			f.Write(seqrun.Content(tag, 100))
			f.Write(seqrun.Content(tag+"b", 5000))
			f.Close()
		}
	case "begin", "beginrr":
		lvl := 1
		if kind == "beginrr" {
			lvl = 2
		}
		if tx, err := db.Begin(ctxBg, verif.IsoLevel(lvl)); err == nil {
			tx.Set(ctxBg, key, seqrun.Content(tag, 50))
			tx.Get(ctxBg, key)
			tx.Commit(ctxBg)
		}
	}
}

// c15Steady: mixed workload on one handle (inline, or gRPC server + clients in this process).
func c15Steady(c *rt.CaseResult, seed int64, idx int, scratch string, mode dbx.Mode, opsPer int, faulty bool) [][]tlog {
	sd := time.Millisecond
	if idx%2 == 0 {
		sd = 1
	}
	roots := 1 + idx%2
	if faulty {
		roots = 2
	}
	env, err := dbx.Open(dbx.Options{Mode: mode, Dir: filepath.Join(scratch, "db"), GCPeriod: 2 * time.Millisecond, SendDuration: sd, NumWorkers: 2, Roots: roots})
	if err != nil {
		c.Violate("open-failed", err.Error(), nil)
		return [][]tlog{{}}
	}
	defer env.Close()
	if faulty {
		// fault functions without any shared state (they must not order the goroutines they are
		// called from): decisions come from the low bits of the clock
		root0 := filepath.Clean(env.Cfg.Storage.RootDirs[0])
		verif.SetDiskFree(func(root string) (uint64, bool) {
			if filepath.Clean(root) == root0 {
				return 1000, true
			}
			return 5000, true
		})
		verif.SetWriteFault(func(path string, p []byte) (int, error, bool) {
			switch (time.Now().UnixNano() >> 5) & 63 {
			case 0:
				return 0, syscall.ENOSPC, true
			case 1:
				return len(p) / 2, syscall.ENOSPC, true
			case 2:
				return len(p) / 3, syscall.EIO, true
			}
			return 0, nil, false
		})
		verif.SetOpFault(func(op, path string) error {
			n := (time.Now().UnixNano() >> 5) & 127
			if n == 5 && (op == "badger.set" || op == "badger.txn.set" || op == "badger.txn" || op == "badger.delete") {
				return errors.New("injected metadata failure")
			}
			if n == 9 && op == "os.create" {
				return errors.New("injected create failure")
			}
			return nil
		})
		defer verif.SetDiskFree(nil)
		defer verif.SetWriteFault(nil)
		defer verif.SetOpFault(nil)
	}
	workers := 6
	logs := make([][]tlog, workers+1)
	t0 := time.Now()
	var wg sync.WaitGroup
	keys := []string{"a", "b", "c"}
	stop := make(chan struct{})
	wg.Add(1)
	go func() { // collector actor
		defer wg.Done()
		for {
			select {
			case <-stop:
				return
			default:
			}
			s := time.Since(t0)
			env.Collect()
			logs[workers] = append(logs[workers], tlog{"collect", s, time.Since(t0)})
			time.Sleep(300 * time.Microsecond)
		}
	}()
	var cwg sync.WaitGroup
	for g := 0; g < workers; g++ {
		cwg.Add(1)
		go func(g int) {
			defer cwg.Done()
			rng := seqrun.Rng(seed, "C15", idx*100+g)
			var tx fs_db.Tx
			for i := 0; i < opsPer; i++ {
				key := keys[rng.Intn(len(keys))]
				tag := fmt.Sprintf("s%d-g%d-%d", idx, g, i)
				s := time.Since(t0)
				kind := ""
				ctxBg := ctxBg
				cancel := func() {}
				if faulty && rng.Intn(8) == 0 {
					// a caller that gives up early
					ctxBg, cancel = context.WithTimeout(ctxBg, time.Duration(20+rng.Intn(600))*time.Microsecond)
				}
				var st fs_db.Store = env.DB
				if tx != nil && rng.Intn(4) > 0 {
					st = tx
				}
				switch x := rng.Intn(100); {
				case tx == nil && x < 10:
					kind = "begin"
					tx, _ = env.DB.Begin(ctxBg, verif.IsoLevel(rng.Intn(4)))
				case tx != nil && x < 12:
					kind = "commit"
					tx.Commit(ctxBg)
					tx = nil
				case tx != nil && x < 16:
					kind = "rollback"
					tx.Rollback(ctxBg)
					tx = nil
				case x < 45:
					kind = "set"
					// the value is the caller's memory again once Set has returned (also when it
					// returned because its context ended): it is scribbled over right away. Faulty
					// runs use values large enough for the context to end during the call
					n := 20 + rng.Intn(3000)
					if faulty && i%16 == 0 {
						n = 2 << 20
					}
					val := seqrun.Content(tag, n)
					st.Set(ctxBg, key, val)
					for j := 0; j < len(val); j += 512 {
						val[j] = '#'
					}
				case x < 50:
					kind = "create"
					if f, err := st.Create(ctxBg, key); err == nil {
						f.Write(seqrun.Content(tag, 700))
						f.Write(seqrun.Content(tag, 1400))
						f.Close()
					}
				case x < 57:
					kind = "delete"
					st.Delete(ctxBg, key)
				case x < 80:
					kind = "get"
					st.Get(ctxBg, key)
				case x < 88:
					kind = "getreader"
					if rc, err := st.GetReader(ctxBg, key); err == nil {
						io.Copy(io.Discard, rc)
						rc.Close()
					}
				default:
					kind = "getkeys"
					st.GetKeys(ctxBg)
				}
				cancel()
				logs[g] = append(logs[g], tlog{kind, s, time.Since(t0)})
			}
			if tx != nil {
				tx.Rollback(ctxBg)
			}
		}(g)
	}
	cwg.Wait()
	close(stop)
	wg.Wait()
	return logs
}

// c15Create: several files written with many small writes at once.
func c15Create(c *rt.CaseResult, seed int64, idx int, scratch string) [][]tlog {
	env, err := dbx.Open(dbx.Options{Mode: dbx.Inline, Dir: filepath.Join(scratch, "db")})
	if err != nil {
		c.Violate("open-failed", err.Error(), nil)
		return [][]tlog{{}}
	}
	defer env.Close()
	workers := 4
	logs := make([][]tlog, workers)
	t0 := time.Now()
	var wg sync.WaitGroup
	for g := 0; g < workers; g++ {
		wg.Add(1)
		go func(g int) {
			defer wg.Done()
			// the caller's buffer is its own again as soon as Write has returned (io.Writer): it
			// is refilled for the next Write while the storing goroutine is still at work
			buf := make([]byte, 300)
			for i := 0; i < 25; i++ {
				s := time.Since(t0)
				f, err := env.DB.Create(ctxBg, fmt.Sprintf("f%d", g%2))
				if err != nil {
					continue
				}
				for w := 0; w < 40; w++ {
					f.Write(buf[:copy(buf, seqrun.Content(fmt.Sprintf("p%d-%d-%d", g, i, w), 1+w*7%300))])
					if w%13 == 0 {
						f.Write(nil)
					}
				}
				f.Close()
				logs[g] = append(logs[g], tlog{"create", s, time.Since(t0)})
				s = time.Since(t0)
				env.DB.Get(ctxBg, fmt.Sprintf("f%d", g%2))
				logs[g] = append(logs[g], tlog{"get", s, time.Since(t0)})
				if i%5 == 0 {
					// a file whose storing fails (empty key) while the caller keeps writing
					s = time.Since(t0)
					if f, err := env.DB.Create(ctxBg, ""); err == nil {
						for w := 0; w < 6; w++ {
							f.Write(seqrun.Content(fmt.Sprintf("e%d-%d-%d", g, i, w), 300))
						}
						f.Close()
					}
					logs[g] = append(logs[g], tlog{"create-failing", s, time.Since(t0)})
				}
			}
		}(g)
	}
	wg.Wait()
	return logs
}

func init() {
	Registry["C15"].Rule += " P9: a database with 1200-2100 keys (some overwritten, some deleted) is reopened several times with a collector period of 20-200 us, and used by four goroutines (reads, writes, deletions, transactions, key listings of the whole database outside and inside transactions) right after each Open: the start-up (loading, clean-up of leftovers) runs next to the database's own scheduled work. P8: directories limited to 100 entries on 1-2 roots, six writers of fresh keys and two deleters, the scheduled collector at 20 ms: directories fill up, are replaced, lose files and are handed back to the directory repository by the cleaner while other goroutines are choosing a directory. P7: clean-up batches of several thousand versions, i.e. more chunks of the cleaner than three times the workers (rollbacks of transactions with 4300-5000 deletions, one worker) while other goroutines write and read. P6: two or three databases in one process (the third behind the server), each driven by its own goroutines at the same time. P5: the steady workload (inline and through the server) with faults injected by stateless fault functions - a few percent of the content writes fail (no space, fully or after half the chunk; EIO), of the metadata writes and file creations fail, one root reports less free space than the other, and one call in eight carries a context that expires within 20-600 us - so that the error and clean-up paths run concurrently under the race detector too."
}

// c15BigBatch: one goroutine ends transactions whose clean-up is larger than one chunk of the
// cleaner while others keep the database busy.
func c15BigBatch(c *rt.CaseResult, seed int64, idx int, scratch string) [][]tlog {
	env, err := dbx.Open(dbx.Options{Mode: dbx.Inline, Dir: filepath.Join(scratch, "db"), NumWorkers: 1, SendDuration: []time.Duration{1, time.Millisecond}[idx%2], GCPeriod: 50 * time.Millisecond})
	if err != nil {
		c.Violate("open-failed", err.Error(), nil)
		return [][]tlog{{}}
	}
	defer env.Close()
	logs := make([][]tlog, 4)
	t0 := time.Now()
	var wg sync.WaitGroup
	var stop atomic.Bool
	for g := 1; g < 4; g++ {
		wg.Add(1)
		go func(g int) {
			defer wg.Done()
			for i := 0; !stop.Load(); i++ {
				s := time.Since(t0)
				kind := []string{"set", "get", "getkeys", "delete"}[i%4]
				c15Op(env.DB, kind, fmt.Sprintf("b%d", g), fmt.Sprintf("p7-%d-%d-%d", idx, g, i))
				logs[g] = append(logs[g], tlog{kind, s, time.Since(t0)})
				time.Sleep(3 * time.Millisecond)
			}
		}(g)
	}
	rounds := 1 // one batch per case: the cases run in parallel processes, later rounds on the same database are far slower
	for round := 0; round < rounds; round++ {
		// more chunks of a thousand than three times the workers: the chunks queue up behind
		// each other and the sender is well ahead of the workers
		n := 4300 + 100*(idx%8) + 500*round
		s := time.Since(t0)
		tx, err := env.DB.Begin(ctxBg, verif.IsoLevel(1))
		if err != nil {
			break
		}
		for i := 0; i < n; i++ {
			if i%64 == 0 {
				rt.Beat()
			}
			if round == 1 && idx%4 == 3 {
				tx.Set(ctxBg, fmt.Sprintf("big%d", i%(n/2)), []byte("v")) // every key twice: the commit supersedes half of the writes
			} else {
				tx.Delete(ctxBg, fmt.Sprintf("big%d", i))
			}
		}
		kind := "rollback-big"
		if round == 1 && idx%4 == 3 {
			kind = "commit-big"
			tx.Commit(ctxBg)
		} else {
			tx.Rollback(ctxBg)
		}
		logs[0] = append(logs[0], tlog{kind, s, time.Since(t0)})
		time.Sleep(20 * time.Millisecond)
	}
	env.Drain()
	stop.Store(true)
	wg.Wait()
	return logs
}

// c15Dirs: directory rotation and re-registration under concurrency.
func c15Dirs(c *rt.CaseResult, seed int64, idx int, scratch string) [][]tlog {
	env, err := dbx.Open(dbx.Options{Mode: dbx.Inline, Dir: filepath.Join(scratch, "db"), Roots: 1 + idx%2, MaxDirCount: 100, MaxDirExplicit: true, GCPeriod: 20 * time.Millisecond, NumWorkers: 2})
	if err != nil {
		c.Violate("open-failed", err.Error(), nil)
		return [][]tlog{{}}
	}
	defer env.Close()
	const writers, deleters = 6, 2
	logs := make([][]tlog, writers+deleters)
	t0 := time.Now()
	var wg sync.WaitGroup
	var written [writers]atomic.Int64
	per := 260
	for g := 0; g < writers; g++ {
		wg.Add(1)
		go func(g int) {
			defer wg.Done()
			for i := 0; i < per; i++ {
				if i%64 == 0 {
					rt.Beat()
				}
				s := time.Since(t0)
				env.DB.Set(ctxBg, fmt.Sprintf("w%d-%d", g, i), []byte("v"))
				written[g].Store(int64(i + 1))
				logs[g] = append(logs[g], tlog{"set", s, time.Since(t0)})
			}
		}(g)
	}
	for d := 0; d < deleters; d++ {
		wg.Add(1)
		go func(d int) {
			defer wg.Done()
			rng := seqrun.Rng(seed, "C15d", idx*10+d)
			for i := 0; i < per*2; i++ {
				g := rng.Intn(writers)
				n := written[g].Load()
				if n == 0 {
					time.Sleep(200 * time.Microsecond)
					continue
				}
				s := time.Since(t0)
				env.DB.Delete(ctxBg, fmt.Sprintf("w%d-%d", g, rng.Int63n(n)))
				logs[writers+d] = append(logs[writers+d], tlog{"delete", s, time.Since(t0)})
				time.Sleep(300 * time.Microsecond)
			}
		}(d)
	}
	wg.Wait()
	env.Collect()
	env.Drain()
	return logs
}

// c15Reopen: Open of a populated database with a collector that ticks every few microseconds.
func c15Reopen(c *rt.CaseResult, seed int64, idx int, scratch string) [][]tlog {
	opt := dbx.Options{Mode: dbx.Inline, Dir: filepath.Join(scratch, "db"), NumWorkers: 2}
	env, err := dbx.Open(opt)
	if err != nil {
		c.Violate("open-failed", err.Error(), nil)
		return [][]tlog{{}}
	}
	n := 1200 + 300*(idx%4)
	for i := 0; i < n; i++ {
		if i%256 == 0 {
			rt.Beat()
		}
		env.DB.Set(ctxBg, fmt.Sprintf("r%05d", i), []byte("v"))
		if i%7 == 0 {
			env.DB.Set(ctxBg, fmt.Sprintf("r%05d", i), []byte("w"))
		}
		if i%11 == 0 {
			env.DB.Delete(ctxBg, fmt.Sprintf("r%05d", i/2))
		}
	}
	env.Close()
	logs := make([][]tlog, 4)
	t0 := time.Now()
	for round := 0; round < 2; round++ {
		rt.Beat()
		opt.GCPeriod = time.Duration(20+60*((round+idx)%4)) * time.Microsecond
		s := time.Since(t0)
		env, err = dbx.Open(opt)
		if err != nil {
			c.Violate("open-failed reopen", err.Error(), nil)
			return logs
		}
		logs[0] = append(logs[0], tlog{"open", s, time.Since(t0)})
		var wg sync.WaitGroup
		for g := 1; g < 4; g++ {
			wg.Add(1)
			go func(g int) {
				defer wg.Done()
				for i := 0; i < 40; i++ {
					s := time.Since(t0)
					kind := []string{"get", "set", "delete", "begin"}[(i+g)%4]
					c15Op(env.DB, kind, fmt.Sprintf("r%05d", (i*37+g)%n), fmt.Sprintf("p9-%d-%d-%d", idx, g, i))
					logs[g] = append(logs[g], tlog{kind, s, time.Since(t0)})
					if i%13 == g {
						// listings of more than a thousand keys (a fifth of them deleted), outside and
						// inside transactions of every level
						s := time.Since(t0)
						env.DB.GetKeys(ctxBg)
						if tx, err := env.DB.Begin(ctxBg, verif.IsoLevel((i/13+g)%4)); err == nil {
							tx.GetKeys(ctxBg)
							tx.Rollback(ctxBg)
						}
						logs[g] = append(logs[g], tlog{"getkeys", s, time.Since(t0)})
					}
				}
			}(g)
		}
		wg.Wait()
		env.Close()
	}
	return logs
}
