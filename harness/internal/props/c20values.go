package props

import (
	"fmt"
	"math"
	"os"
	"path/filepath"
	"reflect"
	"strings"
	"time"

	"github.com/glebziz/fs_db/config"

	"verifharness/internal/rt"
)

func init() {
	p := Registry["C20"]
	p.Roles["values"] = Role{N: func(t string) int { return 1 }, Case: c20Values}
	// the documented default of numWorkers is runtime.GOMAXPROCS(0) (which the model uses): the
	// source combinations run once more in processes started with GOMAXPROCS=3 and =5
	p.Roles["gomaxprocs3"] = Role{N: func(t string) int { return 4 }, Case: c20Combos, Env: []string{"GOMAXPROCS=3"}}
	p.Roles["gomaxprocs5"] = Role{N: func(t string) int { return 2 }, Case: c20Combos, Env: []string{"GOMAXPROCS=5"}}
	p.Rule += " Roles gomaxprocs3/5: the source combinations in processes started with GOMAXPROCS=3 and 5 (the documented default of numWorkers is runtime.GOMAXPROCS(0), not the number of CPUs). Role values: every setting takes well-formed values from the whole range of its type (ports 1..65535 including 32767, 32768, 50051; limits up to 2^64-1; durations from 1ns to a year; 1 to 100000 workers; paths with blanks, non-ASCII and with characters that shells, templates and URL parsers interpret ($name, ${name}, ~, %20, {{...}}, #, ?); 1 to 400 roots), once from the environment and once from the file, and must come back exactly; configuration files of 3 KiB to 300 KiB (comment headers before the settings, settings after hundreds of roots, trailing comments) must be read to their end."
}

// c20Values: well-formed values from the edges of each type, and large files.
func c20Values(tier string, seed int64, idx int, scratch string) rt.CaseResult {
	var c rt.CaseResult
	os.MkdirAll(scratch, 0o755)
	for _, s := range c20Settings {
		os.Unsetenv(s.env)
	}
	manyRoots := func(n int) (yaml, env, want string) {
		var rs []string
		for i := 0; i < n; i++ {
			rs = append(rs, fmt.Sprintf("/mnt/storage/disk-%03d", i))
		}
		return "[" + strings.Join(rs, ", ") + "]", strings.Join(rs, ";"), strings.Join(rs, "|")
	}
	type val struct {
		file, env string
		want      any
	}
	y400, e400, w400 := manyRoots(400)
	y1, e1, w1 := manyRoots(1)
	vals := map[string][]val{
		"port": {{"1", "1", 1}, {"80", "80", 80}, {"32767", "32767", 32767}, {"32768", "32768", 32768}, {"50051", "50051", 50051}, {"65535", "65535", 65535}},
		"maxDirCount": {{"1", "1", uint64(1)}, {"99", "99", uint64(99)}, {"100", "100", uint64(100)}, {"4294967296", "4294967296", uint64(1) << 32},
			{"9223372036854775808", "9223372036854775808", uint64(1) << 63}, {"18446744073709551615", "18446744073709551615", uint64(math.MaxUint64)}},
		"gcPeriod":     {{"1ns", "1ns", time.Nanosecond}, {"1ms", "1ms", time.Millisecond}, {"24h", "24h", 24 * time.Hour}, {"8760h", "8760h", 8760 * time.Hour}},
		"sendDuration": {{"1ns", "1ns", time.Nanosecond}, {"10s", "10s", 10 * time.Second}, {"2562047h", "2562047h", 2562047 * time.Hour}},
		"numWorkers":   {{"1", "1", 1}, {"64", "64", 64}, {"1024", "1024", 1024}, {"100000", "100000", 100000}, {"2147483648", "2147483648", 1 << 31}},
		"dbPath": {{`"/var/lib/fs db/with blank"`, "/var/lib/fs db/with blank", "/var/lib/fs db/with blank"}, {`"./данные/бд"`, "./данные/бд", "./данные/бд"}, {"x", "x", "x"},
			// characters that mean something to shells, templates and URL parsers mean nothing here
			{`"/var/lib/fs_db/$data"`, "/var/lib/fs_db/$data", "/var/lib/fs_db/$data"}, {`"/data/${HOME}/$USER/$PORT"`, "/data/${HOME}/$USER/$PORT", "/data/${HOME}/$USER/$PORT"},
			{`"$VERIF_NO_SUCH_VARIABLE"`, "$VERIF_NO_SUCH_VARIABLE", "$VERIF_NO_SUCH_VARIABLE"}, {`"~/db"`, "~/db", "~/db"}, {`"db%20x/{{.Name}}/#1?a=b"`, "db%20x/{{.Name}}/#1?a=b", "db%20x/{{.Name}}/#1?a=b"}},
		"rootDirs": {{y1, e1, w1}, {y400, e400, w400}, {`["/r with blank/a", "/r/ü"]`, "/r with blank/a;/r/ü", "/r with blank/a|/r/ü"},
			{`["/mnt/$DB_PATH/a", "${HOME}/b"]`, "/mnt/$DB_PATH/a;${HOME}/b", "/mnt/$DB_PATH/a|${HOME}/b"}},
	}
	writeFile := func(body string) string {
		f := filepath.Join(scratch, "values.yaml")
		os.WriteFile(f, []byte(body), 0o644)
		return f
	}
	yamlFor := func(s cfgSetting, v string) string {
		p := strings.Split(s.yamlPath, ".")
		if len(p) == 1 {
			return fmt.Sprintf("%s: %s\n", p[0], v)
		}
		return fmt.Sprintf("%s:\n  %s: %s\n", p[0], p[1], v)
	}
	for _, s := range c20Settings {
		for _, v := range vals[s.name] {
			for _, src := range []string{"env", "file"} {
				c.Evals++
				var got config.Config
				var err error
				if src == "env" {
					os.Setenv(s.env, v.env)
					got, err = config.ParseConfig("")
					os.Unsetenv(s.env)
				} else {
					got, err = config.ParseConfig(writeFile(yamlFor(s, v.file)))
				}
				shown := v.env
				if len(shown) > 60 {
					shown = shown[:60] + "..."
				}
				rp := map[string]any{"setting": s.name, "source": src, "value": shown}
				if err != nil {
					c.Violate(fmt.Sprintf("valid-config-rejected setting=%s source=%s", s.name, src), fmt.Sprintf("%s = %q from the %s is well-formed, ParseConfig failed: %v", s.name, shown, src, err), rp)
					return c
				}
				if g := s.get(got); !reflect.DeepEqual(g, v.want) {
					gs := fmt.Sprint(g)
					if len(gs) > 80 {
						gs = gs[:80] + "..."
					}
					c.Violate(fmt.Sprintf("wrong-value setting=%s source=%s", s.name, src), fmt.Sprintf("%s = %q from the %s came back as %s", s.name, shown, src, gs), rp)
					return c
				}
				c.AddDistinct(fmt.Sprintf("value/%s/%s/%d", s.name, src, len(v.env)))
			}
		}
	}
	// large files: what follows a long stretch of the file must still count
	settings := "port: 7001\nstorage:\n  dbPath: file_db\n  maxDirCount: 501\n  gcPeriod: 7m\n  rootDirs: [fileRootA, fileRootB]\nwPool:\n  numWorkers: 31\n  sendDuration: 13ms\n"
	comment := func(n int) string {
		line := "# " + strings.Repeat("configuration notes ", 4) + "\n"
		return strings.Repeat(line, n/len(line)+1)
	}
	for _, pad := range []int{3000, 4000, 4096, 5000, 70000, 300000} {
		for _, where := range []string{"header", "roots-first", "trailer"} {
			body := ""
			switch where {
			case "header":
				body = comment(pad) + settings
			case "trailer":
				body = settings + comment(pad)
			default:
				n := pad / 24
				y, _, _ := manyRoots(n)
				body = "storage:\n  rootDirs: " + y + "\n  dbPath: file_db\n  maxDirCount: 501\n  gcPeriod: 7m\nport: 7001\nwPool:\n  numWorkers: 31\n  sendDuration: 13ms\n"
			}
			c.Evals++
			got, err := config.ParseConfig(writeFile(body))
			rp := map[string]any{"file_bytes": len(body), "layout": where}
			if err != nil {
				c.Violate("valid-config-rejected large-file", fmt.Sprintf("a well-formed configuration file of %d bytes (%s) was rejected: %v", len(body), where, err), rp)
				return c
			}
			for _, s := range c20Settings {
				if s.name == "rootDirs" {
					if where == "roots-first" && len(got.Storage.RootDirs) != pad/24 {
						c.Violate("wrong-source setting=rootDirs large-file", fmt.Sprintf("a file with %d roots (%d bytes) yields %d roots", pad/24, len(body), len(got.Storage.RootDirs)), rp)
						return c
					}
					continue
				}
				if g := s.get(got); !reflect.DeepEqual(g, s.fileWant) {
					c.Violate("wrong-source setting="+s.name+" want-from=file large-file", fmt.Sprintf("configuration file of %d bytes (%s): %s = %v, the file says %v", len(body), where, s.name, g, s.fileWant), rp)
					return c
				}
			}
			c.AddDistinct(fmt.Sprintf("large-file/%s/%d", where, pad))
		}
	}
	c.Sample = map[string]any{"values_per_setting": "edges of each type, from file and environment", "file_sizes": "3 KiB - 300 KiB"}
	return c
}
