package props

import (
	"fmt"
	"path/filepath"
	"time"

	"github.com/glebziz/fs_db"

	"verifharness/internal/dbx"
	"verifharness/internal/rt"
)

func init() {
	p := Registry["C14"]
	p.Roles["scheduledbig"] = Role{N: func(t string) int { return tierN(t, 3, 24) }, Case: c14ScheduledBig}
	p.Rule += " Role scheduledbig: one, two or three workers and the database's own scheduled collector (20-60 ms): a RepeatableRead transaction holds the horizon while 1-3 keys are overwritten 1100-2600 times, then ends; the next scheduled pass has more than a thousand versions to reclaim at once while it occupies a worker of the pool its clean-up jobs go to. After it the pool must still drain (barrier jobs start) and the roots hold one file per key."
}

func c14ScheduledBig(tier string, seed int64, idx int, scratch string) rt.CaseResult {
	var c rt.CaseResult
	workers := 1 + idx%3
	gc := time.Duration(20+20*(idx%3)) * time.Millisecond
	env, err := dbx.Open(dbx.Options{Mode: dbx.Inline, Dir: filepath.Join(scratch, "db"), NumWorkers: workers, GCPeriod: gc, SendDuration: sendDur(idx)})
	if err != nil {
		c.Violate("open-failed", err.Error(), nil)
		return c
	}
	defer env.Close()
	nkeys := 1 + idx/3%3
	n := []int{1100, 1300, 2600}[idx%3]
	replay := map[string]any{"seed": seed, "case": idx, "workers": workers, "collector_period": gc.String(), "keys": nkeys, "overwrites": n}
	for k := 0; k < nkeys; k++ {
		env.DB.Set(ctxBg, fmt.Sprintf("s%d", k), []byte("v0"))
	}
	hold, err := env.DB.Begin(ctxBg, fs_db.IsoLevelRepeatableRead)
	if err != nil {
		c.Violate("begin-failed", err.Error(), replay)
		return c
	}
	hold.Get(ctxBg, "s0")
	for i := 0; i < n; i++ {
		if i%128 == 0 {
			rt.Beat()
		}
		if err := env.DB.Set(ctxBg, fmt.Sprintf("s%d", i%nkeys), []byte(fmt.Sprintf("v%d", i+1))); err != nil {
			c.Violate("write-failed role=scheduledbig", err.Error(), replay)
			return c
		}
	}
	c.Evals = int64(n)
	if err := hold.Rollback(ctxBg); err != nil {
		c.Violate("rollback-failed role=scheduledbig", err.Error(), replay)
		return c
	}
	// at least three periods: a scheduled pass has started by now (and, if it can, finished)
	time.Sleep(6*gc + 100*time.Millisecond)
	if !quiesce(&c, env, replay) {
		return c
	}
	if !leakCheck(&c, env, "after-a-big-scheduled-pass", replay) {
		return c
	}
	c.AddDistinct(fmt.Sprintf("scheduledbig/workers=%d/keys=%d/overwrites=%d", workers, nkeys, n))
	if idx == 0 {
		c.Sample = replay
	}
	return c
}
