package props

import (
	"bytes"
	"errors"
	"fmt"
	"io"
	"path/filepath"
	"strings"
	"syscall"
	"time"

	"github.com/glebziz/fs_db"
	"github.com/glebziz/fs_db/pkg/verif"

	"verifharness/internal/dbx"
	"verifharness/internal/rt"
	"verifharness/internal/seqrun"
)

func init() {
	register(&Prop{
		ID: "C11", Level: "exploration",
		Rule:        "(1) the C01/C02/C03/C13 history profiles run through external.Open against the real server (internal/app: interceptors, streaming) on a loopback port and compared step by step, with probes after every step, with the same reference model the inline client is compared with (values and sentinel classes; content lengths across the 2048-byte chunk boundary; empty key, missing key, ended transaction, conflict; all four levels); (2) error mapping round trip ClientError(Error(wrap(e))) for every wire sentinel e and a foreign error over a generated family of wrappings (%w nesting depth 0-4, errors.Join with foreign errors, custom Unwrap), exhaustive over the family: errors.Is must hold for e and for no other sentinel; (3) server side rejections of streamed writes must surface from Set, SetReader and File.Close. evaluations = calls compared + mapping cases; distinct_nontrivial = distinct (operation, actor kind, result class) tuples seen through the gRPC client + distinct mapping (sentinel, wrapping shape) cases",
		Assumptions: []string{"reference model refmodel", "loopback TCP"},
		Roles: map[string]Role{
			"hist":    {N: func(t string) int { return tierN(t, 144, 6000) }, Case: c11HistCase},
			"mapping": {N: func(t string) int { return 1 }, Case: c11MappingCase},
			"reject":  {N: func(t string) int { return tierN(t, 4, 16) }, Case: c11RejectCase},
		},
	})
}

func c11HistCase(tier string, seed int64, idx int, scratch string) rt.CaseResult {
	var c rt.CaseResult
	rng := seqrun.Rng(seed, "C11", idx)
	var p seqrun.Profile
	kind := []string{"kv", "tx", "commit", "late"}[idx%4]
	switch kind {
	case "kv":
		keys := []string{"k", "k1", "never-written", seqrun.HostileKeys[rng.Intn(len(seqrun.HostileKeys))], seqrun.HostileKeys[rng.Intn(len(seqrun.HostileKeys))]}
		lens := []int{0, 1, 24, 2047, 2048, 2049, 4095, 4096, 4097, seqrun.LenGrid[rng.Intn(len(seqrun.LenGrid))]}
		p = seqrun.Profile{Steps: tierN(tier, 36, 70), Keys: keys, Lens: lens,
			W: map[string]int{"set": 20, "setreader": 12, "create": 12, "delete": 8, "get": 8, "getreader": 8, "getkeys": 5, "emptykey": 6}}
	case "tx":
		p = seqrun.Profile{Steps: tierN(tier, 40, 80), Keys: txKeys[:3], Lens: []int{16, 3000}, MaxOpen: 4, TxBias: 60,
			W: map[string]int{"begin": 12, "set": 26, "delete": 8, "get": 4, "getkeys": 3, "commit": 10, "rollback": 5, "collect": 3, "setreader": 4, "create": 4, "emptykey": 2, "faultwrite": 2}}
	case "commit":
		p = seqrun.Profile{Steps: tierN(tier, 36, 70), Keys: txKeys[:3], Lens: []int{12}, MaxOpen: 4, TxBias: 70, Levels: []int{2, 3, 1},
			W: map[string]int{"begin": 14, "set": 30, "delete": 8, "commit": 16, "rollback": 6}}
	case "late":
		p = seqrun.Profile{Steps: tierN(tier, 36, 60), Keys: txKeys[:3], Lens: []int{10, 2500}, MaxOpen: 3, TxBias: 60,
			W: map[string]int{"begin": 14, "set": 22, "commit": 12, "rollback": 7, "lateread": 12, "latetx": 8, "phantom": 2}}
	}
	p.TagPrefix = fmt.Sprintf("h%d-", idx)
	steps := seqrun.Generate(rng, p)
	for i := range steps {
		if steps[i].Key == "never-written" && steps[i].Op != "get" && steps[i].Op != "getreader" {
			steps[i].Key = "k"
		}
	}
	out := runSeq(&c, scratch, "h", dbx.Options{Mode: dbx.Grpc, OpenCtxDone: idx%3 == 1}, steps, seqrun.Options{Probe: true, ProbeReader: kind == "kv", ProbeEnded: kind == "late"}, seed)
	if r := out.Runner; r != nil {
		c.Evals = r.Stats.Steps + r.Stats.Probes
		if out.Mism == nil {
			for k := range r.Stats.OpClass {
				c.AddDistinct("grpc:" + k)
			}
		}
		addOpClasses(&c, r, "op/actor/result classes seen through the gRPC client")
		c.Count("histories_"+kind, 1)
		c.Count("calls_compared", c.Evals)
	}
	if idx < 4 {
		c.Sample = map[string]any{"profile": kind, "steps": sampleSteps(steps, 8)}
	}
	return c
}

type customWrap struct{ inner error }

func (c customWrap) Error() string { return "custom(" + c.inner.Error() + ")" }
func (c customWrap) Unwrap() error { return c.inner }

type multiWrap struct{ inner []error }

func (c multiWrap) Error() string   { return "multi" }
func (c multiWrap) Unwrap() []error { return c.inner }

func c11MappingCase(tier string, seed int64, idx int, scratch string) rt.CaseResult {
	var c rt.CaseResult
	wire := map[string]error{
		"ErrUnknown": fs_db.ErrUnknown, "ErrNoFreeSpace": fs_db.ErrNoFreeSpace, "ErrNotFound": fs_db.ErrNotFound,
		"ErrEmptyKey": fs_db.ErrEmptyKey, "ErrHeaderNotFound": fs_db.ErrHeaderNotFound, "ErrTxNotFound": fs_db.ErrTxNotFound,
		"ErrTxAlreadyExists": fs_db.ErrTxAlreadyExists, "ErrTxSerialization": fs_db.ErrTxSerialization,
	}
	foreign := errors.New("some foreign failure")
	// start-up sentinels never cross the wire; like a foreign error they must arrive as ErrUnknown
	extra := map[string]error{"foreign": foreign, "ErrEmptyDbPath": fs_db.ErrEmptyDbPath, "ErrEmptyRootDirs": fs_db.ErrEmptyRootDirs}
	type shape struct {
		name string
		f    func(error) error
	}
	var shapes []shape
	// all compositions of up to 4 wrappers drawn from: %w, custom Unwrap, Join(foreign, e), Join(e, foreign), multi-unwrap
	wrappers := []shape{
		{"w", func(e error) error { return fmt.Errorf("ctx: %w", e) }},
		{"c", func(e error) error { return customWrap{e} }},
		{"jl", func(e error) error { return errors.Join(foreign, e) }},
		{"jr", func(e error) error { return errors.Join(e, errors.New("other foreign")) }},
		{"m", func(e error) error { return multiWrap{[]error{errors.New("x"), e}} }},
	}
	var build func(prefix []int, depth int)
	build = func(prefix []int, depth int) {
		idxs := append([]int(nil), prefix...)
		name := ""
		for _, i := range idxs {
			name += wrappers[i].name + "."
		}
		shapes = append(shapes, shape{strings.TrimSuffix("id."+name, "."), func(e error) error {
			for i := len(idxs) - 1; i >= 0; i-- {
				e = wrappers[idxs[i]].f(e)
			}
			return e
		}})
		if depth == 0 {
			return
		}
		for i := range wrappers {
			build(append(idxs, i), depth-1)
		}
	}
	build(nil, 4)
	check := func(name string, e error, want error, sh shape) {
		c.Evals++
		in := sh.f(e)
		out := verif.ClientError(verif.GrpcError(in))
		var got []string
		for n, s := range wire {
			if errors.Is(out, s) {
				got = append(got, n)
			}
		}
		wantName := "ErrUnknown"
		for n, s := range wire {
			if s == want {
				wantName = n
			}
		}
		if len(got) != 1 || got[0] != wantName {
			c.Violate(fmt.Sprintf("error-mapping sentinel=%s got=%s", name, strings.Join(got, "+")),
				fmt.Sprintf("ClientError(Error(%s(%s))) is %v, want exactly %s", sh.name, name, got, wantName),
				map[string]any{"sentinel": name, "wrapping": sh.name, "server_error": in.Error(), "client_error": out.Error()})
			return
		}
		c.AddDistinct("map:" + name + "/" + shapeClass(sh.name))
	}
	for _, sh := range shapes {
		for n, e := range wire {
			check(n, e, e, sh)
		}
		for n, e := range extra {
			check(n, e, fs_db.ErrUnknown, sh)
		}
	}
	c.Count("mapping_cases", c.Evals)
	c.Count("wrapping_shapes", int64(len(shapes)))
	c.Sample = map[string]any{"mapping_case": "ClientError(Error(fmt.Errorf(\"ctx: %w\", errors.Join(foreign, ErrTxSerialization)))) must be ErrTxSerialization only"}
	_ = dbx.Inline
	_ = seed
	return c
}

func shapeClass(n string) string {
	d := strings.Count(n, ".")
	kinds := map[string]bool{}
	for _, p := range strings.Split(n, ".")[1:] {
		kinds[p] = true
	}
	var ks []string
	for _, k := range []string{"w", "c", "jl", "jr", "m"} {
		if kinds[k] {
			ks = append(ks, k)
		}
	}
	return fmt.Sprintf("depth%d/%s", d, strings.Join(ks, ""))
}

// c11RejectCase: writes that the server rejects (empty key; no room on any root, injected in the
// in-process server through the write hook) with contents from empty to several MiB, so that the
// rejection arrives before, while and after the client streams; the gRPC client must report the
// class the inline client reports for the same call.
func c11RejectCase(tier string, seed int64, idx int, scratch string) rt.CaseResult {
	var c rt.CaseResult
	g, err := dbx.Open(dbx.Options{Mode: dbx.Grpc, Dir: filepath.Join(scratch, "g")})
	if err != nil {
		c.Violate("open-failed", err.Error(), nil)
		return c
	}
	defer g.Close()
	in, err := dbx.Open(dbx.Options{Mode: dbx.Inline, Dir: filepath.Join(scratch, "i")})
	if err != nil {
		c.Violate("open-failed", err.Error(), nil)
		return c
	}
	defer in.Close()
	defer verif.SetWriteFault(nil)
	defer verif.SetOpFault(nil)
	sizes := []int{0, 1, 2047, 2048, 2049, 100000, 1 << 20, 4<<20 - 5, 4<<20 - 4, 4 << 20, 4<<20 + 17, 9<<20 + 1, 17<<20 + 3}
	for round := 0; round < tierN(tier, 2, 4); round++ {
		for _, size := range sizes {
			for _, api := range []string{"set", "setreader", "create"} {
				for _, rej := range []string{"empty-key", "no-space", "io-error", "metadata-failure", "none"} {
					rt.Beat()
					key := "k"
					if rej == "empty-key" {
						key = ""
					}
					verif.SetWriteFault(nil)
					verif.SetOpFault(nil)
					switch rej {
					case "no-space":
						if size == 0 {
							continue // nothing is written, nothing can fail
						}
						verif.SetWriteFault(func(path string, p []byte) (int, error, bool) { return 0, syscall.ENOSPC, true })
					case "io-error":
						if size == 0 {
							continue
						}
						verif.SetWriteFault(func(path string, p []byte) (int, error, bool) { return len(p) / 2, syscall.EIO, true })
					case "metadata-failure":
						verif.SetOpFault(func(op, path string) error {
							if op == "badger.set" && strings.HasPrefix(path, "file/") {
								return errors.New("injected failure of the version record write")
							}
							return nil
						})
					}
					content := seqrun.Content(fmt.Sprintf("r%d-%d-%s-%s", idx, size, api, rej), size)
					do := func(db fs_db.DB) error {
						switch api {
						case "set":
							return db.Set(ctxBg, key, content)
						case "setreader":
							return db.SetReader(ctxBg, key, bytes.NewReader(content))
						default:
							f, err := db.Create(ctxBg, key)
							if err != nil {
								return err
							}
							var werr error
							for off := 0; off < len(content) && werr == nil; off += 65536 {
								_, werr = f.Write(content[off:min(len(content), off+65536)])
							}
							cerr := f.Close()
							if werr != nil {
								return werr
							}
							return cerr
						}
					}
					ci, cg := seqrun.Class(do(in.DB)), seqrun.Class(do(g.DB))
					c.Evals++
					if ci != cg {
						c.Violate(fmt.Sprintf("server-rejection-class-differs op=%s rejection=%s inline=%s grpc=%s", api, rej, ci, cg), fmt.Sprintf("%s of %d bytes, rejection %s: the inline client reports %s, the gRPC client %s", api, size, rej, ci, cg), map[string]any{"api": api, "size": size, "rejection": rej, "inline": ci, "grpc": cg})
						return c
					}
					if rej == "none" && cg == "ok" {
						// what was stored must come back the same way through both clients
						for _, rd := range []string{"get", "getreader"} {
							read := func(db fs_db.DB) ([]byte, error) {
								if rd == "get" {
									return db.Get(ctxBg, key)
								}
								rc, err := db.GetReader(ctxBg, key)
								if err != nil {
									return nil, err
								}
								defer rc.Close()
								return io.ReadAll(rc)
							}
							bi, ei := read(in.DB)
							bg, eg := read(g.DB)
							c.Evals++
							if seqrun.Class(ei) != seqrun.Class(eg) || ei == nil && (!bytes.Equal(bi, content) || !bytes.Equal(bg, content)) {
								c.Violate(fmt.Sprintf("read-back-differs op=%s inline=%s grpc=%s", rd, seqrun.Class(ei), seqrun.Class(eg)), fmt.Sprintf("%s of a %d-byte value: inline %d bytes (%v), gRPC %d bytes (%v)", rd, size, len(bi), ei, len(bg), eg), map[string]any{"op": rd, "size": size})
								return c
							}
						}
					}
					c.AddDistinct(fmt.Sprintf("reject:%s/%s/%s/%s", api, rej, lenClass(size), cg))
				}
			}
		}
	}
	if idx == 0 {
		c.Sample = map[string]any{"rejections": []string{"empty key", "no space on any root (hook in the in-process server)", "I/O error after half a chunk", "version record cannot be written", "none"}, "sizes": sizes}
	}
	return c
}

func init() {
	p := Registry["C11"]
	p.Roles["longhandle"] = Role{N: func(t string) int { return tierN(t, 0, 2) }, Case: c11LongHandle}
	p.Rule += " Role longhandle (thorough tier only, 50 s per case): a file from Create and a reader from GetReader (8 MiB value) stay open for 47 seconds on both clients while every second a kilobyte is written / read and ordinary calls are made; then Close, the rest of the reader, Get: the gRPC client must behave as the inline one (a connection that the server recycles under a long-lived handle shows here)."
}

// c11LongHandle: handles that stay open for most of a minute.
func c11LongHandle(tier string, seed int64, idx int, scratch string) rt.CaseResult {
	var c rt.CaseResult
	rt.SetWatchdogLimit(3 * time.Minute)
	g, err := dbx.Open(dbx.Options{Mode: dbx.Grpc, Dir: filepath.Join(scratch, "g")})
	if err != nil {
		c.Violate("open-failed", err.Error(), nil)
		return c
	}
	defer g.Close()
	in, err := dbx.Open(dbx.Options{Mode: dbx.Inline, Dir: filepath.Join(scratch, "i")})
	if err != nil {
		c.Violate("open-failed", err.Error(), nil)
		return c
	}
	defer in.Close()
	big := seqrun.Content(fmt.Sprintf("lh%d-big", idx), 8<<20)
	type side struct {
		name   string
		db     fs_db.DB
		f      fs_db.File
		rd     io.ReadCloser
		events []string
		got    []byte
	}
	sides := []*side{{name: "inline", db: in.DB}, {name: "grpc", db: g.DB}}
	note := func(s *side, what string, err error) {
		s.events = append(s.events, what+": "+string(seqrun.Class(err)))
	}
	for _, s := range sides {
		note(s, "set big", s.db.Set(ctxBg, "big", big))
		var err error
		s.f, err = s.db.Create(ctxBg, "slow")
		note(s, "create", err)
		s.rd, err = s.db.GetReader(ctxBg, "big")
		note(s, "getreader", err)
	}
	var written []byte
	secs := 47 + idx*5
	for sec := 0; sec < secs; sec++ {
		rt.Beat()
		chunk := seqrun.Content(fmt.Sprintf("lh%d-w%d", idx, sec), 1024)
		written = append(written, chunk...)
		for _, s := range sides {
			if s.f != nil {
				_, err := s.f.Write(chunk)
				note(s, "write", err)
			}
			if s.rd != nil {
				buf := make([]byte, 1024)
				n, err := io.ReadFull(s.rd, buf)
				s.got = append(s.got, buf[:n]...)
				note(s, "read", err)
			}
			note(s, "set", s.db.Set(ctxBg, "ordinary", chunk[:10]))
			_, err := s.db.Get(ctxBg, "ordinary")
			note(s, "get", err)
		}
		time.Sleep(time.Second)
	}
	for _, s := range sides {
		if s.f != nil {
			note(s, "close", s.f.Close())
		}
		if s.rd != nil {
			rest, err := io.ReadAll(s.rd)
			s.got = append(s.got, rest...)
			note(s, "read rest", err)
			s.rd.Close()
		}
		b, err := s.db.Get(ctxBg, "slow")
		note(s, "get slow", err)
		if err == nil && !bytes.Equal(b, written) {
			s.events = append(s.events, "get slow: content differs")
		}
		if !bytes.Equal(s.got, big) {
			s.events = append(s.events, fmt.Sprintf("reader delivered %d bytes, not the value", len(s.got)))
		}
	}
	c.Evals = int64(len(sides[0].events))
	for i := range sides[0].events {
		if i >= len(sides[1].events) || sides[0].events[i] != sides[1].events[i] {
			other := "(nothing)"
			if i < len(sides[1].events) {
				other = sides[1].events[i]
			}
			c.Violate("long-lived-handle-differs inline-vs-grpc", fmt.Sprintf("event %d of a %d s session with a file and a reader open all the time: inline %q, gRPC %q", i, secs, sides[0].events[i], other), map[string]any{"seconds": secs, "event": i, "inline": sides[0].events[i], "grpc": other})
			return c
		}
	}
	if len(sides[0].events) != len(sides[1].events) {
		c.Violate("long-lived-handle-differs inline-vs-grpc", "the two clients produced different numbers of events", nil)
		return c
	}
	c.AddDistinct(fmt.Sprintf("longhandle/%ds", secs))
	c.Sample = map[string]any{"seconds": secs, "events": len(sides[0].events)}
	return c
}
