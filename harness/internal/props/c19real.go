package props

import (
	"context"
	"fmt"
	"path/filepath"

	"github.com/glebziz/fs_db/pkg/verif"

	"verifharness/internal/dbx"
	"verifharness/internal/rt"
	"verifharness/internal/seqrun"
)

func init() {
	p := Registry["C19"]
	p.Roles["realstore"] = Role{N: func(t string) int { return tierN(t, 4, 32) }, Case: c19RealStore}
	p.Rule += " Role realstore: the file repository and the content-file repository of a real database (their Badger manager, not a recording provider): records are written, rewritten under the same content id with another sequence and transaction id (what a commit does), deleted and written again, singly and several per metadata-store transaction, content-file records under the neighbouring prefix in between; GetAll, outside and inside a metadata-store transaction, (in every fourth case on top of 999-3100 records written before), must return exactly the latest record of every content id that was not deleted - no earlier version of a rewritten record, no deleted one, none missing."
}

func c19RealStore(tier string, seed int64, idx int, scratch string) rt.CaseResult {
	var c rt.CaseResult
	rng := seqrun.Rng(seed, "C19r", idx)
	env, err := dbx.Open(dbx.Options{Mode: dbx.Inline, Dir: filepath.Join(scratch, "db")})
	if err != nil {
		c.Violate("open-failed", err.Error(), nil)
		return c
	}
	defer func() { env.Close() }()
	ctx := context.Background()
	want := map[string]verif.File{}
	var ids []string
	cfIds := map[string]string{}
	n := tierN(tier, 120, 400)
	plan := map[string]any{"seed": seed, "case": idx, "operations": n}
	check := func(when string) bool {
		cont := verif.InlineContainer(env.DB)
		for _, inTxn := range []bool{false, true} {
			var files []verif.File
			var err error
			if inTxn {
				err = cont.Badger().RunTransaction(ctx, func(ctx context.Context) error {
					var e error
					files, e = cont.FileRepo().GetAll(ctx)
					return e
				})
			} else {
				files, err = cont.FileRepo().GetAll(ctx)
			}
			c.Evals += int64(len(want)) + 1
			if err != nil {
				c.Violate("real-store-getall-failed "+when, fmt.Sprintf("GetAll %s (inside a metadata-store transaction: %v): %v", when, inTxn, err), plan)
				return false
			}
			seen := map[string]bool{}
			for _, f := range files {
				w, ok := want[f.ContentId]
				switch {
				case !ok:
					c.Violate("real-store-record-invented-or-deleted-one-back "+when, fmt.Sprintf("GetAll %s returned %s, a record that was deleted or never written", when, descFile(f)), plan)
					return false
				case seen[f.ContentId]:
					c.Violate("real-store-record-twice "+when, fmt.Sprintf("GetAll %s returned two records for content id %s (one of them %s); the store holds one record per content id, the latest written", when, f.ContentId, descFile(f)), plan)
					return false
				case f != w:
					c.Violate("real-store-record-stale-or-changed "+when, fmt.Sprintf("GetAll %s returned %s, the latest record written under this content id is %s", when, descFile(f), descFile(w)), plan)
					return false
				}
				seen[f.ContentId] = true
			}
			if len(seen) != len(want) {
				c.Violate("real-store-record-missing "+when, fmt.Sprintf("GetAll %s returned %d of the %d records", when, len(seen), len(want)), plan)
				return false
			}
		}
		cont2 := verif.InlineContainer(env.DB)
		for id, parent := range cfIds {
			cf, err := cont2.ContentFileRepo().Get(ctx, id)
			c.Evals++
			if err != nil || cf.Id != id || cf.Parent != parent {
				c.Violate("real-store-content-file-record "+when, fmt.Sprintf("content-file record %s (parent %s) reads back as %+v (%v) %s", id, parent, cf, err, when), plan)
				return false
			}
		}
		return true
	}
	if idx%4 == 3 {
		// more records than any page or batch a scan may be cut into (1000, 1024, 2048)
		cont := verif.InlineContainer(env.DB)
		total := []int{999, 1000, 1001, 2047, 2049, 3100}[idx/4%6]
		for i := 0; i < total; i += 100 {
			rt.Beat()
			err := cont.Badger().RunTransaction(ctx, func(ctx context.Context) error {
				for j := i; j < min(i+100, total); j++ {
					f := verif.File{Key: fmt.Sprintf("bulk-%d", j), Seq: verif.Seq(rng.Uint64()), TxId: randUUID(rng), ContentId: randUUID(rng)}
					want[f.ContentId] = f
					ids = append(ids, f.ContentId)
					if e := cont.FileRepo().Set(ctx, f); e != nil {
						return e
					}
				}
				return nil
			})
			if err != nil {
				c.Violate("real-store-write-failed", err.Error(), plan)
				return c
			}
		}
		plan["bulk_records"] = total
		if !check(fmt.Sprintf("after %d records written in batches", total)) {
			return c
		}
		c.AddDistinct(fmt.Sprintf("real/bulk=%d", total))
	}
	for round := 0; round < 3; round++ {
		cont := verif.InlineContainer(env.DB)
		repo, bd := cont.FileRepo(), cont.Badger()
		for i := 0; i < n; i++ {
			rt.Beat()
			// 1-6 writes, in one metadata-store transaction or each on its own
			batch := 1 + rng.Intn(6)
			var ops []func(ctx context.Context) error
			for b := 0; b < batch; b++ {
				kind := rng.Intn(10)
				switch {
				case kind < 4 || len(ids) == 0: // a new record
					kc := keyClasses[rng.Intn(len(keyClasses))]
					f := verif.File{Key: kc.v(rng), Seq: verif.Seq(seqClasses[rng.Intn(len(seqClasses))].v(rng)), TxId: randUUID(rng), ContentId: randUUID(rng)}
					if len(f.Key) > 2000 {
						f.Key = f.Key[:2000]
					}
					ids = append(ids, f.ContentId)
					ops = append(ops, func(ctx context.Context) error { want[f.ContentId] = f; return repo.Set(ctx, f) })
					c.AddDistinct("real/new")
				case kind < 7: // the record of a content id is rewritten (a commit: new sequence, main transaction id)
					id := ids[rng.Intn(len(ids))]
					old, had := want[id]
					f := verif.File{Key: old.Key, Seq: verif.Seq(rng.Uint64()), TxId: randUUID(rng), ContentId: id}
					if !had {
						f.Key = fmt.Sprintf("rewritten-%d", i)
					}
					ops = append(ops, func(ctx context.Context) error { want[id] = f; return repo.Set(ctx, f) })
					c.AddDistinct(fmt.Sprintf("real/rewrite had=%v", had))
				case kind < 9: // deleted
					id := ids[rng.Intn(len(ids))]
					ops = append(ops, func(ctx context.Context) error {
						f, ok := want[id]
						if !ok {
							f = verif.File{ContentId: id}
						}
						delete(want, id)
						return repo.Delete(ctx, f)
					})
					c.AddDistinct("real/delete")
				default: // a content-file record next to them
					id, parent := randUUID(rng), randUUID(rng)
					ops = append(ops, func(ctx context.Context) error {
						cf, _ := cont.ContentFileRepo().Get(ctx, "no-such-content-file")
						cf.Id, cf.Parent = id, parent
						cfIds[id] = parent
						return cont.ContentFileRepo().Store(ctx, cf)
					})
					c.AddDistinct("real/content-file")
				}
			}
			var err error
			if rng.Intn(2) == 0 {
				err = bd.RunTransaction(ctx, func(ctx context.Context) error {
					for _, op := range ops {
						if e := op(ctx); e != nil {
							return e
						}
					}
					return nil
				})
				c.AddDistinct(fmt.Sprintf("real/transaction writes=%d", min(batch, 3)))
			} else {
				for _, op := range ops {
					if err = op(ctx); err != nil {
						break
					}
				}
			}
			c.Evals++
			if err != nil {
				c.Violate("real-store-write-failed", err.Error(), plan)
				return c
			}
			if i%40 == 39 && !check(fmt.Sprintf("after %d operations of round %d", i+1, round)) {
				return c
			}
		}
		if !check(fmt.Sprintf("at the end of round %d", round)) {
			return c
		}
	}
	c.Count("records_live_at_end", int64(len(want)))
	if idx == 0 {
		c.Sample = map[string]any{"records_at_end": len(want), "content_file_records": len(cfIds), "rounds": 3, "note": "the database is not reopened here: its Load would rightly remove records of unknown transactions; C05 covers reopening"}
	}
	return c
}
