package props

import (
	"bytes"
	"fmt"
	"path/filepath"
	"sync"
	"time"

	"verifharness/internal/dbx"
	"verifharness/internal/rt"
	"verifharness/internal/seqrun"
)

func init() {
	p := Registry["C12"]
	p.Roles["rotation"] = Role{N: func(t string) int { return tierN(t, 4, 48) }, Case: c12Rotation}
	p.Rule += " Role rotation: 8-32 goroutines write files through Create at the same time while the content directories fill up and are replaced (limit 100 entries, one or two roots, inline and gRPC; 600-2400 files per case), the scheduled collector runs every 0.2-1 ms in two cases of three and another client commits transactions all the time: every Close must return (watchdog + goroutine dumps otherwise), every file whose Close returned nil must read back as written."
}

func c12Rotation(tier string, seed int64, idx int, scratch string) rt.CaseResult {
	var c rt.CaseResult
	mode := dbx.Inline
	if idx%2 == 1 {
		mode = dbx.Grpc
	}
	env, err := dbx.Open(dbx.Options{Mode: mode, Dir: filepath.Join(scratch, "db"), Roots: 1 + idx/2%2, MaxDirCount: 100, MaxDirExplicit: true, NumWorkers: 2 + idx%3, GCPeriod: []time.Duration{time.Millisecond, time.Hour, 200 * time.Microsecond}[idx%3]})
	if err != nil {
		c.Violate("open-failed", err.Error(), nil)
		return c
	}
	defer env.Close()
	writers := []int{8, 16, 32, 12}[idx%4]
	per := tierN(tier, 600, 2400) / writers
	replay := map[string]any{"seed": seed, "case": idx, "mode": modeName(mode), "writers": writers, "files_per_writer": per, "roots": 1 + idx/2%2}
	var mu sync.Mutex
	var wg sync.WaitGroup
	// a client that keeps overwriting and committing through transactions of its own while the files are written
	stopCommitter := make(chan struct{})
	var cg sync.WaitGroup
	cg.Add(1)
	go func() {
		defer cg.Done()
		for i := 0; ; i++ {
			select {
			case <-stopCommitter:
				return
			default:
			}
			if tx, err := env.DB.Begin(ctxBg); err == nil {
				tx.Set(ctxBg, "committer", []byte(fmt.Sprint(i)))
				tx.Commit(ctxBg)
			}
		}
	}()
	defer func() { close(stopCommitter); cg.Wait() }()
	for w := 0; w < writers; w++ {
		wg.Add(1)
		go func(w int) {
			defer wg.Done()
			for i := 0; i < per; i++ {
				rt.Beat()
				key := fmt.Sprintf("w%d-f%d", w, i)
				content := seqrun.Content(key, 1+(w*7+i)%40)
				f, err := env.DB.Create(ctxBg, key)
				if err == nil {
					_, err = f.Write(content)
					if cerr := f.Close(); err == nil {
						err = cerr
					}
				}
				var b []byte
				if err == nil {
					b, err = env.DB.Get(ctxBg, key)
				}
				mu.Lock()
				c.Evals++
				if err != nil {
					c.Violate("create-write-close-error class="+string(seqrun.Class(err))+" variant=rotation", fmt.Sprintf("file %s, one of %d written at the same time while directories rotate: %v", key, writers, err), replay)
				} else if !bytes.Equal(b, content) {
					c.Violate("stored-content-differs mode="+modeName(mode)+" variant=rotation", fmt.Sprintf("file %s: Get returns %s, written %s", key, seqrun.Describe(b), seqrun.Describe(content)), replay)
				}
				stop := len(c.Violations) > 0
				mu.Unlock()
				if stop {
					return
				}
			}
		}(w)
	}
	wg.Wait()
	_, dirs, werr := env.Walk(false)
	if werr == nil {
		c.Count("directories_used", int64(len(dirs)))
		if len(dirs) > 1 {
			c.AddDistinct(fmt.Sprintf("rotation/%s/writers=%d/roots=%d", modeName(mode), writers, 1+idx/2%2))
		}
	}
	if idx == 0 {
		c.Sample = replay
	}
	return c
}
