// Package props holds one driver per property.
package props

import (
	"context"
	"crypto/sha1"
	"encoding/hex"
	"encoding/json"
	"fmt"
	"os"
	"path/filepath"
	"sort"
	"strings"

	"verifharness/internal/dbx"
	"verifharness/internal/rt"
	"verifharness/internal/seqrun"
)

// Prop is a property driver.
type Prop struct {
	ID          string
	Level       string
	Rule        string
	Assumptions []string
	// Roles maps a child role to its number of cases and case function.
	Roles map[string]Role
	// Order of roles (default: sorted).
	Order []string
	// Custom, when set, runs instead of the default role sharding.
	Custom func(r *rt.Run, tier string)
	// Post runs in the parent after all cases were merged.
	Post func(r *rt.Run, tier string)
}

// Role is one family of cases run in child processes.
type Role struct {
	N     func(tier string) int
	Case  func(tier string, seed int64, idx int, scratch string) rt.CaseResult
	Procs int
	Batch int
	Env   []string
	Race  bool // needs the race-detector build of the harness
}

// Registry of all property drivers.
var Registry = map[string]*Prop{}

func register(p *Prop) { Registry[p.ID] = p }

func tierN(tier string, quick, thorough int) int {
	if tier == "thorough" {
		return thorough
	}
	return quick
}

func hashSteps(steps []seqrun.Step) string {
	b, _ := json.Marshal(steps)
	s := sha1.Sum(b)
	return hex.EncodeToString(s[:8])
}

// seqOutcome is what runSeq returns.
type seqOutcome struct {
	Runner *seqrun.Runner
	Mism   *seqrun.Mismatch
	Steps  []seqrun.Step
}

// runOnce opens a fresh environment under dir, runs the steps and closes it.
func runOnce(dir string, eo dbx.Options, steps []seqrun.Step, opt seqrun.Options) (*seqrun.Runner, *seqrun.Mismatch, error) {
	os.RemoveAll(dir)
	eo.Dir = dir
	env, err := dbx.Open(eo)
	if err != nil {
		return nil, nil, fmt.Errorf("open: %w", err)
	}
	r := seqrun.NewRunner(env, opt)
	m := r.RunSteps(steps)
	cerr := r.Env.Close()
	os.RemoveAll(dir)
	if m == nil && cerr != nil {
		return r, nil, fmt.Errorf("close: %w", cerr)
	}
	return r, m, nil
}

// shrink tries to remove steps while the same signature keeps failing.
func shrink(dir string, eo dbx.Options, steps []seqrun.Step, opt seqrun.Options, m *seqrun.Mismatch, budget int) ([]seqrun.Step, *seqrun.Mismatch) {
	cur := append([]seqrun.Step(nil), steps[:min(len(steps), m.StepIdx+1)]...)
	best := m
	chunk := len(cur) / 2
	for chunk >= 1 && budget > 0 {
		removed := false
		for start := 0; start+chunk <= len(cur)-1 && budget > 0; {
			cand := append(append([]seqrun.Step(nil), cur[:start]...), cur[start+chunk:]...)
			budget--
			_, mm, err := runOnce(dir, eo, cand, opt)
			if err == nil && mm != nil && mm.Sig == m.Sig {
				cur = cand[:min(len(cand), mm.StepIdx+1)]
				best = mm
				removed = true
			} else {
				start += chunk
			}
		}
		if !removed || chunk > len(cur)/2 {
			chunk /= 2
		}
	}
	return cur, best
}

// runSeq runs a history in a fresh environment; a mismatch is shrunk and
// recorded as a violation of prop in c.
func runSeq(c *rt.CaseResult, scratch, name string, eo dbx.Options, steps []seqrun.Step, opt seqrun.Options, seed int64) seqOutcome {
	dir := filepath.Join(scratch, name)
	r, m, err := runOnce(dir, eo, steps, opt)
	if err != nil {
		c.Violate("harness-or-open-close-error "+firstWords(err.Error(), 6), err.Error(), map[string]any{"steps": steps, "seed": seed})
		return seqOutcome{Runner: r, Steps: steps}
	}
	if m != nil {
		ss, mm := shrink(dir+"-shrink", eo, steps, opt, m, 40)
		c.Violate(mm.Sig, mm.Error(), map[string]any{"seed": seed, "history": name, "mode": modeName(eo.Mode), "shrunk_steps": ss, "mismatch": mm, "original_len": len(steps), "original_mismatch": m})
	}
	return seqOutcome{Runner: r, Mism: m, Steps: steps}
}

func modeName(m dbx.Mode) string {
	if m == dbx.Grpc {
		return "grpc"
	}
	return "inline"
}

func firstWords(s string, n int) string {
	f := strings.Fields(s)
	if len(f) > n {
		f = f[:n]
	}
	return strings.Join(f, " ")
}

func addOpClasses(c *rt.CaseResult, r *seqrun.Runner, set string) {
	if r == nil {
		return
	}
	keys := make([]string, 0, len(r.Stats.OpClass))
	for k := range r.Stats.OpClass {
		keys = append(keys, k)
	}
	sort.Strings(keys)
	for _, k := range keys {
		c.Observe(set, k)
	}
}

func keyClass(k string) string {
	switch {
	case k == "":
		return "empty"
	case len(k) >= 1000:
		return "long"
	case strings.ContainsAny(k, "/\x00\n") || strings.Contains(k, ".."):
		return "special"
	case !isASCII(k):
		return "nonascii"
	case len(k) == 1:
		return "1byte"
	default:
		return "ascii"
	}
}

func isASCII(s string) bool {
	for i := 0; i < len(s); i++ {
		if s[i] >= 0x80 {
			return false
		}
	}
	return true
}

func lenClass(n int) string {
	switch {
	case n == 0:
		return "0"
	case n < 512:
		return "<512"
	case n < 2048:
		return "<2048"
	case n == 2048:
		return "2048"
	case n < 32768:
		return "<32768"
	case n == 32768:
		return "32768"
	case n <= 65536:
		return "<=65536"
	default:
		return ">65536"
	}
}

func sampleSteps(steps []seqrun.Step, n int) []string {
	var out []string
	for i, s := range steps {
		if i >= n {
			out = append(out, fmt.Sprintf("... (%d steps)", len(steps)))
			break
		}
		out = append(out, s.String())
	}
	return out
}

// Extra holds additional sub-commands (child roles with their own protocol).
var Extra = map[string]func(args []string) int{}

var ctxBg = context.Background()

var stderrW = os.Stderr
