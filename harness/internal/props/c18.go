package props

import (
	"fmt"
	"math/rand"
	"path/filepath"
	"sync"
	"sync/atomic"

	"github.com/glebziz/fs_db"
	"github.com/glebziz/fs_db/pkg/verif"

	"verifharness/internal/dbx"
	"verifharness/internal/refmodel"
	"verifharness/internal/rt"
	"verifharness/internal/seqrun"
)

func init() {
	register(&Prop{
		ID: "C18", Level: "exploration",
		Rule:        "the real per-key version list (core.Transaction / file: PushBack, LastBefore, Latest, IterateBeforeSeq+PopFront as the collector uses them, PopBack) against a linear-scan specification on a plain slice. Exhaustive part: every subset of {1..12} as the version list (4096 lists) x every snapshot point 0..13 x every collection horizon 0..13 followed by every snapshot point again; seeded part: interleavings of append / pop-front / pop-back / collect / probe on lists of up to 5000 versions over several keys; database part (role db): 1-6 keys with 0-4 versions before and 0-4 after the Begin of a transaction that stays open (any level; autocommit writes and multi-key commits), collector pass + drain with it open: exactly min(a,1)+b content files per key remain on disk and all reads are unchanged; after it ended and another pass, one file per key. evaluations = (list, point) and (list, horizon, point) comparisons; distinct_nontrivial = distinct (list, horizon) pairs in which the collection removed at least one version plus distinct lists probed",
		Assumptions: []string{"linear-scan specification"},
		Roles: map[string]Role{
			"exhaustive": {N: func(t string) int { return 16 }, Case: c18Exhaustive},
			"seeded":     {N: func(t string) int { return tierN(t, 200, 20000) }, Case: c18Seeded},
			"db":         {N: func(t string) int { return tierN(t, 48, 1200) }, Case: c18Db},
		},
		Post: func(r *rt.Run, tier string) {
			r.Extra("exhaustive_part", "all 4096 subsets of {1..12} x points 0..13 x horizons 0..13")
		},
	})
}

// specLastBefore: the newest version strictly before p.
func specLastBefore(vs []uint64, p uint64) uint64 {
	var best uint64
	for _, v := range vs {
		if v < p {
			best = v
		}
	}
	return best
}

// specCollect removes exactly the versions that have a successor not newer than h.
func specCollect(vs []uint64, h uint64) (kept, removed []uint64) {
	for i, v := range vs {
		if i+1 < len(vs) && vs[i+1] <= h {
			removed = append(removed, v)
		} else {
			kept = append(kept, v)
		}
	}
	return
}

func buildTx(key string, vs []uint64) *verif.CoreTx {
	tx := &verif.CoreTx{}
	for _, v := range vs {
		tx.PushBack(verif.NewFileNode(verif.File{Key: key, Seq: verif.Seq(v), ContentId: fmt.Sprint(v)}))
	}
	return tx
}

func implCollect(tx *verif.CoreTx, key string, h uint64) (removed []uint64) {
	f := tx.File(key)
	for file := range f.IterateBeforeSeq(verif.Seq(h)) {
		removed = append(removed, uint64(file.Seq))
		f.PopFront()
	}
	return
}

func eqU(a, b []uint64) bool {
	if len(a) != len(b) {
		return false
	}
	for i := range a {
		if a[i] != b[i] {
			return false
		}
	}
	return true
}

func c18Exhaustive(tier string, seed int64, idx int, scratch string) rt.CaseResult {
	var c rt.CaseResult
	const n = 12
	for mask := idx; mask < 1<<n; mask += 16 {
		var vs []uint64
		for b := 0; b < n; b++ {
			if mask&(1<<b) != 0 {
				vs = append(vs, uint64(b+1))
			}
		}
		tx := buildTx("k", vs)
		f := tx.File("k")
		for p := uint64(0); p <= n+1; p++ {
			c.Evals++
			if got, want := uint64(f.LastBefore(verif.Seq(p)).Seq), specLastBefore(vs, p); got != want {
				c.Violate("lastbefore-wrong", fmt.Sprintf("versions %v: LastBefore(%d) = %d, want %d", vs, p, got, want), map[string]any{"versions": vs, "point": p, "got": got, "want": want})
				return c
			}
		}
		var wantLatest uint64
		if len(vs) > 0 {
			wantLatest = vs[len(vs)-1]
		}
		if got := uint64(f.Latest().Seq); got != wantLatest {
			c.Violate("latest-wrong", fmt.Sprintf("versions %v: Latest = %d, want %d", vs, got, wantLatest), map[string]any{"versions": vs})
			return c
		}
		c.AddDistinct(fmt.Sprintf("list-%d", mask))
		for h := uint64(0); h <= n+1; h++ {
			tx2 := buildTx("k", vs)
			removed := implCollect(tx2, "k", h)
			kept, wantRemoved := specCollect(vs, h)
			c.Evals++
			if !eqU(removed, wantRemoved) {
				c.Violate("collect-wrong-set", fmt.Sprintf("versions %v horizon %d: removed %v, want %v", vs, h, removed, wantRemoved), map[string]any{"versions": vs, "horizon": h, "removed": removed, "want": wantRemoved})
				return c
			}
			if len(removed) > 0 {
				c.AddDistinct(fmt.Sprintf("list-%d/h%d", mask, h))
			}
			f2 := tx2.File("k")
			for p := uint64(0); p <= n+1; p++ {
				c.Evals++
				got, want := uint64(f2.LastBefore(verif.Seq(p)).Seq), specLastBefore(kept, p)
				if got != want {
					c.Violate("lastbefore-after-collect-wrong", fmt.Sprintf("versions %v after collecting to %d (kept %v): LastBefore(%d) = %d, want %d", vs, h, kept, p, got, want), map[string]any{"versions": vs, "horizon": h, "point": p})
					return c
				}
				// lookups at or after the horizon are unchanged by the collection
				// lookups at or after the horizon are unchanged by the collection. (At p == h
				// exactly, with a version whose sequence equals h, the two halves of the
				// statement disagree; sequences are unique in the running system, so that
				// point is compared with the removal rule only.)
				hInList := false
				for _, v := range vs {
					hInList = hInList || v == h
				}
				if (p > h || (p == h && !hInList)) && got != specLastBefore(vs, p) {
					c.Violate("collect-changed-lookup", fmt.Sprintf("versions %v: collecting to %d changed LastBefore(%d) from %d to %d", vs, h, p, specLastBefore(vs, p), got), map[string]any{"versions": vs, "horizon": h, "point": p})
					return c
				}
			}
			if got := uint64(f2.Latest().Seq); got != wantLatest {
				c.Violate("latest-after-collect-wrong", fmt.Sprintf("versions %v horizon %d: Latest = %d, want %d", vs, h, got, wantLatest), nil)
				return c
			}
		}
	}
	if idx == 0 {
		c.Sample = map[string]any{"list": []int{2, 5, 9}, "checks": "LastBefore(p) for p in 0..13; collect to h in 0..13 then LastBefore(p) again", "example": "collect([2 5 9], h=5) removes [2]; LastBefore(6) stays 5"}
	}
	return c
}

func c18Seeded(tier string, seed int64, idx int, scratch string) rt.CaseResult {
	var c rt.CaseResult
	rng := seqrun.Rng(seed, "C18", idx)
	keys := []string{"a", "b", "c"}[:1+rng.Intn(3)]
	tx := &verif.CoreTx{}
	spec := map[string][]uint64{}
	next := uint64(1)
	maxLen := 50
	if idx%10 == 0 {
		maxLen = 5000
	}
	ops := tierN(tier, 400, 1500)
	if maxLen == 5000 {
		ops = 7000
	}
	var trace []string
	for i := 0; i < ops; i++ {
		k := keys[rng.Intn(len(keys))]
		vs := spec[k]
		f := tx.File(k)
		op := rng.Intn(100)
		switch {
		case op < 45 && len(vs) < maxLen:
			next += uint64(1 + rng.Intn(3))
			tx.PushBack(verif.NewFileNode(verif.File{Key: k, Seq: verif.Seq(next)}))
			spec[k] = append(vs, next)
		case op < 50 && len(vs) > 0:
			n := f.PopFront()
			if uint64(n.V().Seq) != vs[0] {
				c.Violate("popfront-wrong", fmt.Sprintf("PopFront returned %d want %d", n.V().Seq, vs[0]), trace)
				return c
			}
			spec[k] = vs[1:]
		case op < 55 && len(vs) > 0:
			n := f.PopBack()
			if uint64(n.V().Seq) != vs[len(vs)-1] {
				c.Violate("popback-wrong", fmt.Sprintf("PopBack returned %d want %d", n.V().Seq, vs[len(vs)-1]), trace)
				return c
			}
			spec[k] = vs[:len(vs)-1]
		case op < 65 && len(vs) > 0:
			h := pickPoint(rng, vs, next)
			removed := implCollect(tx, k, h)
			kept, want := specCollect(vs, h)
			if !eqU(removed, want) {
				c.Violate("collect-wrong-set", fmt.Sprintf("versions %v horizon %d: removed %v, want %v", vs, h, removed, want), trace)
				return c
			}
			if len(removed) > 0 {
				c.AddDistinct(fmt.Sprintf("s%d/%d/h%d", idx, i, h))
			}
			spec[k] = kept
		default:
			p := pickPoint(rng, vs, next)
			c.Evals++
			got, want := uint64(0), specLastBefore(vs, p)
			if f != nil {
				got = uint64(f.LastBefore(verif.Seq(p)).Seq)
			}
			if got != want {
				c.Violate("lastbefore-wrong", fmt.Sprintf("versions(len %d) LastBefore(%d) = %d, want %d", len(vs), p, got, want), map[string]any{"versions": vs, "point": p, "trace_tail": tailOf(trace, 30)})
				return c
			}
			var wl uint64
			if len(vs) > 0 {
				wl = vs[len(vs)-1]
			}
			if f != nil {
				if gl := uint64(f.Latest().Seq); gl != wl {
					c.Violate("latest-wrong", fmt.Sprintf("Latest = %d, want %d", gl, wl), nil)
					return c
				}
			}
		}
		if len(trace) < 200 {
			trace = append(trace, fmt.Sprintf("op%d key=%s class=%d", i, k, op))
		}
	}
	c.Count("max_list_len_"+fmt.Sprint(maxLen), 1)
	return c
}

func pickPoint(rng *rand.Rand, vs []uint64, next uint64) uint64 {
	if len(vs) > 0 && rng.Intn(3) > 0 {
		v := vs[rng.Intn(len(vs))]
		return v + uint64(rng.Intn(3)) - 1
	}
	return uint64(rng.Int63n(int64(next) + 3))
}

func tailOf(s []string, n int) []string {
	if len(s) > n {
		return s[len(s)-n:]
	}
	return s
}

// c18Db: the same "removes exactly" rule observed on a real database. One transaction T stays
// open (its Begin is the horizon), keys get versions before and after it (autocommit writes and
// multi-key commits of transactions begun after T), then a collector pass and a drain run with
// T still open. A version is removed exactly when it has a successor not newer than the
// horizon, so per key min(a,1)+b content files must remain (a versions before the horizon,
// b after it); T and the autocommit caller must read what they read before the pass. After T
// has ended and another pass has run, one file per key is left.
func c18Db(tier string, seed int64, idx int, scratch string) rt.CaseResult {
	var c rt.CaseResult
	rng := seqrun.Rng(seed, "C18db", idx)
	env, err := dbx.Open(dbx.Options{Mode: dbx.Inline, Dir: filepath.Join(scratch, "db"), SendDuration: sendDur(idx)})
	if err != nil {
		c.Violate("open-failed", err.Error(), nil)
		return c
	}
	defer env.Close()
	nkeys := 1 + rng.Intn(6)
	type kv struct{ a, b int }
	plan := make([]kv, nkeys)
	var events []int // key index per write, -1 = Begin of T
	for k := range plan {
		plan[k] = kv{rng.Intn(5), rng.Intn(5)}
		if plan[k].a+plan[k].b == 0 {
			plan[k].b = 1
		}
	}
	if idx%16 == 15 {
		// one key with a long history on one side of the horizon (or both)
		plan[0] = []kv{{rng.Intn(3), 1030 + rng.Intn(1400)}, {1030 + rng.Intn(1400), rng.Intn(3)}, {1100, 1100}}[idx/16%3]
	}
	var before, after []int
	for k, p := range plan {
		for i := 0; i < p.a; i++ {
			before = append(before, k)
		}
		for i := 0; i < p.b; i++ {
			after = append(after, k)
		}
	}
	rng.Shuffle(len(before), func(i, j int) { before[i], before[j] = before[j], before[i] })
	rng.Shuffle(len(after), func(i, j int) { after[i], after[j] = after[j], after[i] })
	events = append(append(append(events, before...), -1), after...)
	level := idx % 4
	replay := map[string]any{"seed": seed, "case": idx, "versions_before_and_after_the_horizon_per_key": fmt.Sprint(plan), "order": events, "level_of_open_transaction": level}
	key := func(k int) string { return fmt.Sprintf("k%d", k) }
	nver := map[int]int{}
	latest := map[int]string{}
	var tOpen fs_db.Tx
	snapshot := map[int]string{} // what T must read (RR/SER): the state at its Begin
	write := func(ks []int) error {
		// one key: autocommit; several distinct keys: one commit of a transaction begun now
		if len(ks) == 1 {
			k := ks[0]
			nver[k]++
			latest[k] = fmt.Sprintf("c%d-%s-v%d", idx, key(k), nver[k])
			return env.DB.Set(ctxBg, key(k), []byte(latest[k]))
		}
		w, err := env.DB.Begin(ctxBg, fs_db.IsoLevelReadCommitted)
		if err != nil {
			return err
		}
		for _, k := range ks {
			nver[k]++
			latest[k] = fmt.Sprintf("c%d-%s-v%d", idx, key(k), nver[k])
			if err := w.Set(ctxBg, key(k), []byte(latest[k])); err != nil {
				return err
			}
		}
		return w.Commit(ctxBg)
	}
	// an older transaction that ends before the pass, and a younger one begun right after that end:
	// the horizon is still the Begin of T, whatever the registry went through
	older := idx%3 == 1
	var aTx, cTx fs_db.Tx
	if older {
		if aTx, err = env.DB.Begin(ctxBg, verif.IsoLevel(idx/3%4)); err != nil {
			c.Violate("begin-failed", err.Error(), replay)
			return c
		}
		replay["older_transaction_ended_before_the_pass_then_a_younger_one_begun"] = true
	}
	for i := 0; i < len(events); i++ {
		if i%128 == 0 {
			rt.Beat()
		}
		if events[i] == -1 {
			tOpen, err = env.DB.Begin(ctxBg, verif.IsoLevel(level))
			if err != nil {
				c.Violate("begin-failed", err.Error(), replay)
				return c
			}
			for k, v := range latest {
				snapshot[k] = v
			}
			continue
		}
		// group a run of distinct keys (not crossing the Begin) into one commit now and then
		ks := []int{events[i]}
		if tOpen != nil && rng.Intn(3) == 0 {
			seen := map[int]bool{events[i]: true}
			for i+1 < len(events) && events[i+1] >= 0 && !seen[events[i+1]] && len(ks) < 3 {
				i++
				ks = append(ks, events[i])
				seen[events[i]] = true
			}
		}
		if err := write(ks); err != nil {
			c.Violate("write-failed", err.Error(), replay)
			return c
		}
	}
	if older {
		if idx%2 == 0 {
			err = aTx.Commit(ctxBg)
		} else {
			err = aTx.Rollback(ctxBg)
		}
		if err == nil {
			cTx, err = env.DB.Begin(ctxBg, verif.IsoLevel(idx/12%4))
		}
		if err != nil {
			c.Violate("end-of-open-transaction-failed", err.Error(), replay)
			return c
		}
	}
	read := func(st fs_db.Store, k int) string {
		b, err := st.Get(ctxBg, key(k))
		if err != nil {
			return "<" + string(seqrun.Class(err)) + ">"
		}
		return string(b)
	}
	countFiles := func() (int, error) {
		if err := env.Drain(); err != nil {
			return 0, err
		}
		fs, _, err := env.Walk(false)
		return len(fs), err
	}
	total := 0
	for _, p := range plan {
		total += p.a + p.b
	}
	n0, err := countFiles()
	if err != nil {
		c.Inconclusive = append(c.Inconclusive, "drain/walk: "+err.Error())
		return c
	}
	if n0 != total {
		c.Violate("files-before-collection", fmt.Sprintf("%d content files on disk before any collector pass, %d versions were written", n0, total), replay)
		return c
	}
	// in every fourth case the pass is six passes at once (the scheduler sends one per period
	// without waiting for the previous one, several workers may run them side by side)
	if idx%4 == 2 {
		replay["collector_passes_at_once"] = 6
		var wg sync.WaitGroup
		var ready atomic.Int32
		errs := make([]error, 6)
		for g := range errs {
			wg.Add(1)
			go func(g int) {
				defer wg.Done()
				ready.Add(1)
				for ready.Load() < 6 {
				}
				errs[g] = env.Collect()
			}(g)
		}
		wg.Wait()
		for _, e := range errs {
			if e != nil {
				err = e
			}
		}
		c.Count("concurrent_pass_groups", 1)
	} else {
		err = env.Collect()
	}
	if err != nil {
		c.Violate("collector-error", err.Error(), replay)
		return c
	}
	n1, err := countFiles()
	if err != nil {
		c.Inconclusive = append(c.Inconclusive, "drain/walk: "+err.Error())
		return c
	}
	want := 0
	for _, p := range plan {
		if p.a > 0 {
			want++
		}
		want += p.b
	}
	c.Evals++
	if n1 != want {
		what := "collected-too-little"
		if n1 < want {
			what = "collected-too-much"
		}
		c.Violate(what+" open-transaction", fmt.Sprintf("with a transaction open since the horizon, %d content files remain after a collector pass; exactly %d versions have no successor at or before the horizon (per key: the newest one before it and all after it); %d were written", n1, want, total), replay)
		return c
	}
	for k := range plan {
		c.Evals++
		if g := read(env.DB, k); g != latest[k] {
			c.Violate("read-changed-by-collection actor=auto", fmt.Sprintf("%s reads %q after the pass, want %q", key(k), g, latest[k]), replay)
			return c
		}
		if level >= 2 {
			w := snapshot[k]
			if w == "" {
				w = "<" + string(refmodel.NotFound) + ">"
			}
			if g := read(tOpen, k); g != w {
				c.Violate("read-changed-by-collection actor=open-snapshot", fmt.Sprintf("%s read through the open transaction gives %q after the pass, want %q", key(k), g, w), replay)
				return c
			}
		}
	}
	if n1 < n0 {
		c.AddDistinct(fmt.Sprintf("db/keys=%d/level=%d/removed=%d/kept=%d", nkeys, level, n0-n1, n1))
	}
	if idx%2 == 0 {
		err = tOpen.Commit(ctxBg)
	} else {
		err = tOpen.Rollback(ctxBg)
	}
	if err == nil && cTx != nil {
		err = cTx.Rollback(ctxBg)
	}
	if err != nil {
		c.Violate("end-of-open-transaction-failed", err.Error(), replay)
		return c
	}
	if err := env.Collect(); err != nil {
		c.Violate("collector-error", err.Error(), replay)
		return c
	}
	n2, err := countFiles()
	c.Evals++
	if err == nil && n2 != nkeys {
		c.Violate("collected-wrong-set no-open-transaction", fmt.Sprintf("%d content files remain after the transaction ended and another pass ran; %d keys have a value", n2, nkeys), replay)
	}
	if idx == 0 {
		c.Sample = map[string]any{"role": "db", "plan": fmt.Sprint(plan), "files": []int{n0, n1, n2}}
	}
	return c
}
