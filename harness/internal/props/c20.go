package props

import (
	"errors"
	"fmt"
	"os"
	"path/filepath"
	"reflect"
	"runtime"
	"sort"
	"strings"
	"time"

	"github.com/glebziz/fs_db"
	"github.com/glebziz/fs_db/config"
	"github.com/glebziz/fs_db/pkg/inline"

	"verifharness/internal/rt"
	"verifharness/internal/seqrun"
)

func init() {
	register(&Prop{
		ID: "C20", Level: "exploration",
		Rule:        "for the seven settings (port, dbPath, maxDirCount, rootDirs, gcPeriod, numWorkers, sendDuration) every state of the file source {no file, key absent, valid, malformed} and of the environment source {unset, empty, valid, malformed where a malformed value exists}: all single-setting and pairwise combinations with the other settings at seeded states, plus seeded full combinations; the harness writes the YAML file, sets the process environment of a child process, calls the real config.ParseConfig and compares with a model of the documented precedence (values are distinct per source so provenance is visible; a malformed value in effect must be an error). Also other spellings of environment values (zero-padded decimals must read as decimal or be refused, base prefixes / digit separators / exponents / blanks must be reported, composite and fractional durations must keep their value), Storage.Valid on {empty path, empty roots, limits 0/99/100/101/1e6} and ParseConfig -> inline.Open -> ParseConfig (documented defaults must survive). evaluations = ParseConfig/Valid calls compared; distinct_nontrivial = distinct (setting, file state, env state) triples + distinct pairs of such triples exercised",
		Assumptions: []string{"40-line model of the documented defaults and precedence"},
		Roles: map[string]Role{
			"combos": {N: func(t string) int { return 16 }, Case: c20Combos},
			"valid":  {N: func(t string) int { return 1 }, Case: c20Valid},
			"spell":  {N: func(t string) int { return 1 }, Case: c20Spellings},
		},
	})
}

type cfgSetting struct {
	name, yamlPath, env string
	fileValid, envValid string
	fileBad, envBad     string // "" = no malformed form exists
	get                 func(c config.Config) any
	fileWant, envWant   any
	def                 func() any
	fileZero            string // the key present in the file with the zero value of its type
	zeroWant            any
}

var c20Settings = []cfgSetting{
	{"port", "port", "PORT", "7001", "7002", "abc", "80x", func(c config.Config) any { return c.Port }, 7001, 7002, func() any { return 8888 }, "0", 0},
	{"dbPath", "storage.dbPath", "DB_PATH", "file_db", "env_db", "", "", func(c config.Config) any { return c.Storage.DbPath }, "file_db", "env_db", func() any { return "test_db" }, `""`, ""},
	{"maxDirCount", "storage.maxDirCount", "DIR_COUNT", "501", "502", "many", "-5", func(c config.Config) any { return c.Storage.MaxDirCount }, uint64(501), uint64(502), func() any { return uint64(1_000_000) }, "0", uint64(0)},
	{"rootDirs", "storage.rootDirs", "ROOT_DIRS", "[fileRootA, fileRootB]", "envRootA;envRootB;envRootC", "", "", func(c config.Config) any { return strings.Join(c.Storage.RootDirs, "|") }, "fileRootA|fileRootB", "envRootA|envRootB|envRootC", func() any { return "./testStorage" }, "[]", ""},
	{"gcPeriod", "storage.gcPeriod", "GC_PERIOD", "7m", "9s", "soon", "5 parsecs", func(c config.Config) any { return c.Storage.GCPeriod }, 7 * time.Minute, 9 * time.Second, func() any { return time.Minute }, "0s", time.Duration(0)},
	{"numWorkers", "wPool.numWorkers", "NUM_WORKERS", "31", "37", "[1, 2]", "1.5", func(c config.Config) any { return c.WPool.NumWorkers }, 31, 37, func() any { return runtime.GOMAXPROCS(0) }, "0", 0},
	{"sendDuration", "wPool.sendDuration", "SEND_DURATION", "13ms", "17us", "fast", "1 fortnight", func(c config.Config) any { return c.WPool.SendDuration }, 13 * time.Millisecond, 17 * time.Microsecond, func() any { return time.Millisecond }, "0s", time.Duration(0)},
}

// file states: 0 key absent, 1 valid, 2 malformed, 3 present with the zero value of its type; env states: 0 unset, 1 empty, 2 valid, 3 malformed
type cfgCombo struct {
	noFile bool
	fs, es [7]int
}

func (cb cfgCombo) String() string {
	var parts []string
	if cb.noFile {
		parts = append(parts, "no-file")
	}
	for i, s := range c20Settings {
		if cb.fs[i] != 0 || cb.es[i] != 0 {
			parts = append(parts, fmt.Sprintf("%s:file=%s,env=%s", s.name, []string{"absent", "valid", "malformed", "zero-value"}[cb.fs[i]], []string{"unset", "empty", "valid", "malformed"}[cb.es[i]]))
		}
	}
	return strings.Join(parts, " ")
}

func (cb cfgCombo) yaml() string {
	groups := map[string][]string{}
	var top []string
	for i, s := range c20Settings {
		var v string
		switch cb.fs[i] {
		case 1:
			v = s.fileValid
		case 2:
			v = s.fileBad
		case 3:
			v = s.fileZero
		default:
			continue
		}
		p := strings.Split(s.yamlPath, ".")
		if len(p) == 1 {
			top = append(top, fmt.Sprintf("%s: %s", p[0], v))
		} else {
			groups[p[0]] = append(groups[p[0]], fmt.Sprintf("  %s: %s", p[1], v))
		}
	}
	out := strings.Join(top, "\n")
	for _, g := range []string{"storage", "wPool"} {
		if len(groups[g]) > 0 {
			out += "\n" + g + ":\n" + strings.Join(groups[g], "\n")
		}
	}
	return out + "\n"
}

func c20Eval(c *rt.CaseResult, scratch string, cb cfgCombo) bool {
	for i := range c20Settings {
		if c20Settings[i].fileBad == "" && cb.fs[i] == 2 {
			cb.fs[i] = 1
		}
		if c20Settings[i].envBad == "" && cb.es[i] == 3 {
			cb.es[i] = 2
		}
		if cb.noFile {
			cb.fs[i] = 0
		}
	}
	file := ""
	if !cb.noFile {
		file = filepath.Join(scratch, "conf.yaml")
		os.WriteFile(file, []byte(cb.yaml()), 0o644)
	}
	wantErr := false
	for i, s := range c20Settings {
		switch cb.es[i] {
		case 0:
			os.Unsetenv(s.env)
		case 1:
			os.Setenv(s.env, "")
		case 2:
			os.Setenv(s.env, s.envValid)
		case 3:
			os.Setenv(s.env, s.envBad)
			wantErr = true
		}
		if cb.fs[i] == 2 {
			wantErr = true
		}
	}
	c.Evals++
	got, err := config.ParseConfig(file)
	for _, s := range c20Settings {
		os.Unsetenv(s.env)
	}
	if wantErr {
		if err == nil {
			c.Violate("malformed-value-accepted "+firstBad(cb), fmt.Sprintf("combination [%s]: ParseConfig returned no error; yaml:\n%s", cb, cb.yaml()), map[string]any{"combo": cb.String(), "yaml": cb.yaml(), "result": fmt.Sprintf("%+v", got)})
			return false
		}
	} else {
		if err != nil {
			c.Violate("valid-config-rejected", fmt.Sprintf("combination [%s]: ParseConfig failed: %v", cb, err), map[string]any{"combo": cb.String(), "yaml": cb.yaml()})
			return false
		}
		for i, s := range c20Settings {
			var want any
			src := "default"
			switch {
			case cb.es[i] == 2:
				want, src = s.envWant, "environment"
			case cb.fs[i] == 1:
				want, src = s.fileWant, "file"
			case cb.fs[i] == 3:
				want, src = s.zeroWant, "file(zero-value)"
			default:
				want = s.def()
			}
			if g := s.get(got); !reflect.DeepEqual(g, want) {
				c.Violate(fmt.Sprintf("wrong-source setting=%s want-from=%s", s.name, src), fmt.Sprintf("combination [%s]: %s = %v, want %v (from the %s)", cb, s.name, g, want, src), map[string]any{"combo": cb.String(), "yaml": cb.yaml(), "setting": s.name, "got": fmt.Sprint(g), "want": fmt.Sprint(want)})
				return false
			}
		}
	}
	nf := "file"
	if cb.noFile {
		nf = "nofile"
	}
	for i, s := range c20Settings {
		c.AddDistinct(fmt.Sprintf("%s/%s/f%d/e%d", s.name, nf, cb.fs[i], cb.es[i]))
	}
	return true
}

func firstBad(cb cfgCombo) string {
	for i, s := range c20Settings {
		if cb.es[i] == 3 {
			return "setting=" + s.name + " source=env"
		}
	}
	for i, s := range c20Settings {
		if cb.fs[i] == 2 {
			return "setting=" + s.name + " source=file"
		}
	}
	return ""
}

func c20Combos(tier string, seed int64, idx int, scratch string) rt.CaseResult {
	var c rt.CaseResult
	os.MkdirAll(scratch, 0o755)
	rng := seqrun.Rng(seed, "C20", idx)
	randCombo := func(clean bool) cfgCombo {
		var cb cfgCombo
		cb.noFile = rng.Intn(8) == 0
		for i := range c20Settings {
			cb.fs[i] = rng.Intn(2)
			cb.es[i] = rng.Intn(3)
			if !clean && rng.Intn(12) == 0 {
				cb.fs[i] = 2
			}
			if rng.Intn(10) == 0 {
				cb.fs[i] = 3
			}
			if !clean && rng.Intn(12) == 0 {
				cb.es[i] = 3
			}
		}
		return cb
	}
	n := 0
	// single and pairwise: settings (i,j), all states of both, the others at seeded clean states
	for i := 0; i < 7; i++ {
		for j := i; j < 7; j++ {
			for si := 0; si < 16; si++ {
				for sj := 0; sj < 16; sj++ {
					if i == j && sj != 0 {
						continue
					}
					n++
					if n%16 != idx {
						continue
					}
					cb := randCombo(true)
					cb.fs[i], cb.es[i] = si/4, si%4
					if i != j {
						cb.fs[j], cb.es[j] = sj/4, sj%4
					}
					if !c20Eval(&c, scratch, cb) {
						return c
					}
					c.AddDistinct(fmt.Sprintf("pair/%d.%d/%d.%d", i, si, j, sj))
				}
			}
		}
	}
	// seeded full combinations
	for k := 0; k < tierN(tier, 1500, 60000); k++ {
		cb := randCombo(false)
		if !c20Eval(&c, scratch, cb) {
			return c
		}
		if k == 0 && idx == 0 {
			c.Sample = map[string]any{"combination": cb.String(), "yaml": cb.yaml()}
		}
	}
	// a non-existent file is an error, an empty file gives the defaults
	c.Evals++
	if _, err := config.ParseConfig(filepath.Join(scratch, "does-not-exist.yaml")); err == nil {
		c.Violate("missing-file-accepted", "ParseConfig of a non-existent file returned no error", nil)
	}
	os.WriteFile(filepath.Join(scratch, "empty.yaml"), nil, 0o644)
	c.Evals++
	if got, err := config.ParseConfig(filepath.Join(scratch, "empty.yaml")); err != nil || got.Port != 8888 || got.Storage.DbPath != "test_db" {
		c.Violate("empty-file-not-defaults", fmt.Sprintf("ParseConfig of an empty file: %+v, %v", got, err), nil)
	}
	return c
}

func c20Valid(tier string, seed int64, idx int, scratch string) rt.CaseResult {
	var c rt.CaseResult
	for _, path := range []string{"", "p"} {
		for _, roots := range [][]string{nil, {}, {"r"}, {"r1", "r2"}} {
			for _, lim := range []uint64{0, 1, 99, 100, 101, 1_000_000} {
				s := config.Storage{DbPath: path, RootDirs: roots, MaxDirCount: lim}
				c.Evals++
				err := s.Valid()
				name := fmt.Sprintf("path=%q roots=%d limit=%d", path, len(roots), lim)
				switch {
				case path == "" && len(roots) == 0:
					if !errors.Is(err, fs_db.ErrEmptyDbPath) && !errors.Is(err, fs_db.ErrEmptyRootDirs) {
						c.Violate("valid-wrong-error both-empty", name+": "+fmt.Sprint(err), nil)
					}
				case path == "":
					if !errors.Is(err, fs_db.ErrEmptyDbPath) {
						c.Violate("valid-wrong-error empty-path", name+": "+fmt.Sprint(err), nil)
					}
				case len(roots) == 0:
					if !errors.Is(err, fs_db.ErrEmptyRootDirs) {
						c.Violate("valid-wrong-error empty-roots", name+": "+fmt.Sprint(err), nil)
					}
				default:
					want := lim
					if want < 100 {
						want = 100
					}
					if err != nil || s.MaxDirCount != want {
						c.Violate("valid-limit", fmt.Sprintf("%s: err=%v limit after Valid=%d want %d", name, err, s.MaxDirCount, want), nil)
					}
				}
				c.AddDistinct("valid/" + name)
			}
		}
	}
	// the documented errors must also be what inline.Open reports for an invalid configuration
	for _, tc := range []struct {
		name string
		cfg  config.Config
		want error
	}{
		{"empty-path", config.Config{Storage: config.Storage{DbPath: "", RootDirs: []string{filepath.Join(scratch, "r")}}}, fs_db.ErrEmptyDbPath},
		{"empty-roots", config.Config{Storage: config.Storage{DbPath: filepath.Join(scratch, "d"), RootDirs: nil}}, fs_db.ErrEmptyRootDirs},
	} {
		c.Evals++
		db, err := inline.Open(ctxBg, tc.cfg)
		if err == nil {
			db.Close()
			c.Violate("open-accepts-invalid-config "+tc.name, "inline.Open accepted an invalid configuration", nil)
			continue
		}
		if !errors.Is(err, tc.want) {
			c.Violate("open-invalid-config-wrong-error "+tc.name, fmt.Sprintf("inline.Open(%s) = %v, which is not %v by errors.Is", tc.name, err, tc.want), nil)
			continue
		}
		c.AddDistinct("open-invalid/" + tc.name)
	}
	// a limit below 100 is raised to 100 for the database that is opened with it, not only in
	// the caller's copy of the configuration: 130 files written one after the other must sit
	// as 100 + 30 in two directories of the single root
	for _, lim := range []uint64{0, 1, 50, 99, 100} {
		base := filepath.Join(scratch, fmt.Sprintf("lim%d", lim))
		root := filepath.Join(base, "root")
		cfg := config.Config{Storage: config.Storage{DbPath: filepath.Join(base, "db"), RootDirs: []string{root}, MaxDirCount: lim, GCPeriod: time.Hour}, WPool: config.WPool{NumWorkers: 1, SendDuration: time.Millisecond}}
		c.Evals++
		db, err := inline.Open(ctxBg, cfg)
		if err != nil {
			c.Violate("open-failed limit-below-100", fmt.Sprintf("inline.Open with MaxDirCount %d: %v", lim, err), nil)
			continue
		}
		for i := 0; i < 130; i++ {
			if err := db.Set(ctxBg, fmt.Sprintf("k%03d", i), []byte("v")); err != nil {
				c.Violate("set-failed limit-below-100", err.Error(), nil)
				break
			}
		}
		db.Close()
		var counts []int
		ents, _ := os.ReadDir(root)
		for _, e := range ents {
			sub, _ := os.ReadDir(filepath.Join(root, e.Name()))
			counts = append(counts, len(sub))
		}
		sort.Ints(counts)
		if fmt.Sprint(counts) != "[30 100]" {
			c.Violate(fmt.Sprintf("effective-directory-limit-not-100 configured=%d", lim), fmt.Sprintf("a database opened with MaxDirCount %d stored 130 files as %v per directory; with the limit raised to 100 they sit as [30 100]", lim, counts), map[string]any{"configured": lim, "entries_per_directory": counts})
		}
		c.AddDistinct(fmt.Sprintf("open-limit/%d", lim))
		os.RemoveAll(base)
	}
	// ParseConfig -> inline.Open -> ParseConfig: the documented defaults must survive
	os.MkdirAll(scratch, 0o755)
	wd, _ := os.Getwd()
	os.Chdir(scratch) // the defaults are relative paths
	defer os.Chdir(wd)
	for _, s := range c20Settings {
		os.Unsetenv(s.env)
	}
	cfg, err := config.ParseConfig("")
	if err != nil {
		c.Violate("defaults-parse", err.Error(), nil)
		return c
	}
	cfg.Storage.GCPeriod = time.Hour
	db, err := inline.Open(ctxBg, cfg)
	if err != nil {
		c.Violate("defaults-open", err.Error(), nil)
		return c
	}
	db.Set(ctxBg, "k", []byte("v"))
	db.Close()
	c.Evals++
	again, err := config.ParseConfig("")
	if err != nil {
		c.Violate("defaults-parse", err.Error(), nil)
		return c
	}
	for _, s := range c20Settings {
		if g, w := s.get(again), s.def(); !reflect.DeepEqual(g, w) {
			c.Violate("defaults-mutated setting="+s.name, fmt.Sprintf("after opening a database with the parsed default configuration, ParseConfig(\"\") returns %s = %v; the documented default is %v", s.name, g, w), map[string]any{"setting": s.name, "got": fmt.Sprint(g), "want": fmt.Sprint(w)})
		}
	}
	c.AddDistinct("defaults-after-open")
	c.Sample = map[string]any{"valid_case": "path=\"p\" roots=1 limit=99 -> nil, limit raised to 100"}
	return c
}

// c20Spellings: other spellings of numeric and duration values in the environment. The
// documented format is a decimal number / a Go duration: a zero-padded decimal must read as
// its decimal value (or be refused), never as another number; spellings that are not decimal
// numerals (base prefixes, digit separators, exponents, blanks) are malformed and must be
// reported, not interpreted silently; composite and fractional durations must keep their value.
func c20Spellings(tier string, seed int64, idx int, scratch string) rt.CaseResult {
	var c rt.CaseResult
	for _, s := range c20Settings {
		os.Unsetenv(s.env)
	}
	type sp struct {
		text string
		dec  uint64 // decimal reading, when decimal
		ok   bool   // a decimal numeral
	}
	nums := []sp{{"0500", 500, true}, {"007001", 7001, true}, {"000100", 100, true}, {"08", 8, true}, {"0", 0, true},
		{"0x200", 0, false}, {"0X1F4", 0, false}, {"0b1100100", 0, false}, {"0o777", 0, false}, {"1_000", 0, false}, {"1e3", 0, false}, {" 500", 0, false}, {"500 ", 0, false}, {"5 00", 0, false}}
	for _, s := range c20Settings {
		var conv func(uint64) any
		switch s.name {
		case "port", "numWorkers":
			conv = func(v uint64) any { return int(v) }
		case "maxDirCount":
			conv = func(v uint64) any { return v }
		default:
			continue
		}
		for _, n := range nums {
			os.Setenv(s.env, n.text)
			c.Evals++
			got, err := config.ParseConfig("")
			os.Unsetenv(s.env)
			c.AddDistinct(fmt.Sprintf("spelling/%s/%s/err=%v", s.name, n.text, err != nil))
			switch {
			case err != nil:
			case !n.ok:
				c.Violate("malformed-value-accepted setting="+s.name+" source=env spelling", fmt.Sprintf("%s=%q is not a decimal number; ParseConfig returned no error and %s = %v", s.env, n.text, s.name, s.get(got)), map[string]any{"env": s.env, "value": n.text})
			case !reflect.DeepEqual(s.get(got), conv(n.dec)):
				c.Violate("numeric-value-misread setting="+s.name, fmt.Sprintf("%s=%q: %s = %v, want %v (decimal) or an error", s.env, n.text, s.name, s.get(got), n.dec), map[string]any{"env": s.env, "value": n.text})
			}
		}
	}
	durs := []struct {
		text string
		want time.Duration
	}{{"1h30m", 90 * time.Minute}, {"1.5h", 90 * time.Minute}, {"0.5s", 500 * time.Millisecond}, {"2m0.25s", 2*time.Minute + 250*time.Millisecond}, {"1500ms", 1500 * time.Millisecond}, {"1us", time.Microsecond}, {"1µs", time.Microsecond}}
	for _, s := range c20Settings {
		if s.name != "gcPeriod" && s.name != "sendDuration" {
			continue
		}
		for _, d := range durs {
			os.Setenv(s.env, d.text)
			c.Evals++
			got, err := config.ParseConfig("")
			os.Unsetenv(s.env)
			c.AddDistinct(fmt.Sprintf("spelling/%s/%s/err=%v", s.name, d.text, err != nil))
			if err == nil && !reflect.DeepEqual(s.get(got), d.want) {
				c.Violate("duration-value-misread setting="+s.name, fmt.Sprintf("%s=%q: %s = %v, want %v or an error", s.env, d.text, s.name, s.get(got), d.want), map[string]any{"env": s.env, "value": d.text})
			}
		}
	}
	return c
}
