package props

import (
	"bytes"
	"context"
	"errors"
	"fmt"
	"os"
	"path/filepath"
	"strings"
	"sync"
	"syscall"
	"time"

	"github.com/glebziz/fs_db"
	"github.com/glebziz/fs_db/pkg/verif"

	"verifharness/internal/conc"
	"verifharness/internal/dbx"
	"verifharness/internal/refmodel"
	"verifharness/internal/rt"
	"verifharness/internal/seqrun"
)

var c12Sizes = []int{0, 1, 511, 512, 513, 2047, 2048, 2049, 32767, 32768, 32769}

func init() {
	register(&Prop{
		ID: "C12", Level: "exploration",
		Rule:        "files obtained from Create (inline and gRPC) written with sequences of Write sizes over {0,1,511,512,513,2047,2048,2049,32767,32768,32769}: all sequences of length <= 3 in the thorough tier (1463), a seeded sample in the quick tier, longer seeded sequences; seeded perturbation at the hook points of the pipe behind Create; pacing variants in which the next Write is issued only after the storing side went back to waiting; steered windows (storing side about to wait <-> Close; storing side waiting <-> empty Write). Oracle: Close returns (else watchdog + goroutine dumps); nil => Get == concatenation of all written bytes; storing failure (empty key, injected no-space on every root) => Close or an earlier Write returns that class and the key keeps its previous value. evaluations = files written; distinct_nontrivial = distinct (client, sequence shape, pacing/window, outcome) tuples",
		Assumptions: []string{"goroutine-dump classification of dead-locks"},
		Roles: map[string]Role{
			"seq":    {N: func(t string) int { return tierN(t, 16, 64) }, Case: c12Seq},
			"window": {N: func(t string) int { return tierN(t, 40, 1000) }, Case: c12Window, Batch: 2},
		},
	})
}

func c12AllSeqs() [][]int {
	var out [][]int
	out = append(out, []int{})
	for _, a := range c12Sizes {
		out = append(out, []int{a})
		for _, b := range c12Sizes {
			out = append(out, []int{a, b})
			for _, cc := range c12Sizes {
				out = append(out, []int{a, b, cc})
			}
		}
	}
	return out
}

func shapeOf(seq []int) string {
	var p []string
	for _, n := range seq {
		switch {
		case n == 0:
			p = append(p, "0")
		case n < 2048:
			p = append(p, "s")
		case n < 32768:
			p = append(p, "m")
		default:
			p = append(p, "L")
		}
	}
	return strings.Join(p, "")
}

// writeFile writes the sequence through Create and applies the oracle.
func c12WriteFile(c *rt.CaseResult, env *dbx.Env, tr *conc.Tracer, key, tag string, seq []int, pace bool, prev []byte, hadPrev bool, wantClass refmodel.ErrClass, label string) bool {
	rt.Beat()
	replay := map[string]any{"key": key, "sizes": seq, "paced": pace, "mode": modeName(env.Opt.Mode), "variant": label}
	f, err := env.DB.Create(ctxBg, key)
	if err != nil {
		if seqrun.Class(err) == wantClass && wantClass != refmodel.OK {
			return true
		}
		c.Violate("create-failed class="+string(seqrun.Class(err)), err.Error(), replay)
		return false
	}
	var all, chunk []byte
	var werr error
	for i, n := range seq {
		b := seqrun.Content(fmt.Sprintf("%s-%d", tag, i), n)
		if pace && tr != nil && i > 0 {
			// issue this Write only after the storing side is waiting again
			before := tr.Count("rw.read.wait")
			for w := 0; w < 400 && tr.Count("rw.read.wait") == before && w < 40; w++ {
				time.Sleep(100 * time.Microsecond)
			}
		}
		if i == len(seq)-1 && strings.HasSuffix(label, "+settled-before-last-write") {
			time.Sleep(15 * time.Millisecond) // the storing side's verdict is there before this Write
		}
		// half of the files are written from one chunk buffer that is scribbled over as soon as
		// Write has returned (Write must not retain its argument)
		p := b
		if len(tag)%2 == 0 {
			if cap(chunk) < len(b) {
				chunk = make([]byte, len(b))
			}
			p = chunk[:len(b)]
			copy(p, b)
		}
		_, werr = f.Write(p)
		if len(tag)%2 == 0 {
			for j := range p {
				p[j] = '#'
			}
		}
		if werr != nil {
			break
		}
		all = append(all, b...)
	}
	if strings.HasSuffix(label, "+settled-before-close") {
		time.Sleep(15 * time.Millisecond) // ... before Close sends the buffered tail
	}
	cerr := f.Close()
	err = werr
	if err == nil {
		err = cerr
	}
	got := seqrun.Class(err)
	if wantClass != refmodel.OK {
		if got != wantClass {
			c.Violate(fmt.Sprintf("storing-failure-not-reported want=%s got=%s mode=%s", wantClass, got, modeName(env.Opt.Mode)), fmt.Sprintf("storing must fail with %s; Write/Close returned %v / %v", wantClass, werr, cerr), replay)
			return false
		}
		if key != "" {
			b, gerr := env.DB.Get(ctxBg, key)
			if hadPrev && (gerr != nil || !bytes.Equal(b, prev)) || !hadPrev && seqrun.Class(gerr) != refmodel.NotFound {
				c.Violate("failed-create-changed-key", fmt.Sprintf("after the failed file the key reads %s (%v), before it read %s", seqrun.Describe(b), gerr, seqrun.Describe(prev)), replay)
				return false
			}
		}
		return true
	}
	if err != nil {
		c.Violate("create-write-close-error class="+string(got), fmt.Sprintf("Write/Close failed: %v / %v", werr, cerr), replay)
		return false
	}
	b, gerr := env.DB.Get(ctxBg, key)
	if gerr != nil || !bytes.Equal(b, all) {
		what := "other content"
		if gerr == nil && len(b) < len(all) && bytes.Equal(b, all[:len(b)]) {
			what = fmt.Sprintf("a strict prefix (%d of %d bytes)", len(b), len(all))
		}
		c.Violate("stored-content-differs mode="+modeName(env.Opt.Mode), fmt.Sprintf("Close returned nil but Get returns %s (%v): %s; sizes %v", seqrun.Describe(b), gerr, what, seq), replay)
		return false
	}
	return true
}

func c12Seq(tier string, seed int64, idx int, scratch string) rt.CaseResult {
	var c rt.CaseResult
	rt.SetWatchdogLimit(20 * time.Second)
	rng := seqrun.Rng(seed, "C12", idx)
	mode := dbx.Inline
	if idx%4 == 3 {
		mode = dbx.Grpc
	}
	env, err := dbx.Open(dbx.Options{Mode: mode, Dir: filepath.Join(scratch, "db"), Roots: 1 + idx%2})
	if err != nil {
		c.Violate("open-failed", err.Error(), nil)
		return c
	}
	defer env.Close()
	tr := conc.NewTracer(false)
	if idx%3 != 0 {
		tr.Perturb(25+rng.Intn(50), 20+rng.Intn(300), uint64(seed)*101+uint64(idx))
	}
	tr.Install()
	defer conc.Uninstall()
	all := c12AllSeqs()
	procs := tierN(tier, 16, 64)
	var mine [][]int
	if tier == "thorough" {
		for i := idx; i < len(all); i += procs {
			mine = append(mine, all[i])
		}
	} else {
		for i := 0; i < 18; i++ {
			mine = append(mine, all[rng.Intn(len(all))])
		}
	}
	for i := 0; i < tierN(tier, 4, 12); i++ { // longer seeded sequences
		n := 4 + rng.Intn(12)
		s := make([]int, n)
		for j := range s {
			s[j] = c12Sizes[rng.Intn(len(c12Sizes))]
			if rng.Intn(3) == 0 {
				s[j] = rng.Intn(70000)
			}
		}
		mine = append(mine, s)
	}
	for i, seq := range mine {
		key := fmt.Sprintf("f%d", i%3)
		pace := i%2 == 1 && mode == dbx.Inline
		ok := c12WriteFile(&c, env, tr, key, fmt.Sprintf("c%d-%d", idx, i), seq, pace, nil, false, refmodel.OK, "plain")
		c.Evals++
		if !ok {
			return c
		}
		c.AddDistinct(fmt.Sprintf("%s/%s/paced=%v/ok", modeName(mode), shapeOf(seq), pace))
	}
	// files that are written much faster than they are stored: the pipe's buffer grows while
	// the storing side reads from it (8 MiB in writes of about 1 MiB, with empty and 1-byte
	// writes in between)
	if mode == dbx.Grpc {
		// an upload of 17 MiB and one of 33 MiB through the server, in writes of 1 MiB
		for i, total := range []int{17 << 20, 33<<20 + 5} {
			var seq []int
			for sum := 0; sum < total; sum += 1 << 20 {
				seq = append(seq, min(1<<20, total-sum))
			}
			c.Evals++
			if !c12WriteFile(&c, env, nil, "bigup", fmt.Sprintf("c%d-up%d", idx, i), seq, false, nil, false, refmodel.OK, "upload-of-tens-of-MiB") {
				return c
			}
			c.AddDistinct(fmt.Sprintf("grpc/upload-%dMiB/ok", total>>20))
			if idx%8 != 3 {
				break // the larger one in one case of eight
			}
		}
	}
	if mode == dbx.Inline {
		for i := 0; i < tierN(tier, 6, 10); i++ {
			var seq []int
			for total := 0; total < 8<<20; {
				n := []int{1 << 20, 0, 1<<20 + 1, 1, 1<<20 - 1}[len(seq)%5]
				seq = append(seq, n)
				total += n
			}
			c.Evals++
			if !c12WriteFile(&c, env, nil, fmt.Sprintf("big%d", i%2), fmt.Sprintf("c%d-big%d", idx, i), seq, false, nil, false, refmodel.OK, "writer-ahead-8MiB") {
				return c
			}
			c.AddDistinct(fmt.Sprintf("%s/writer-ahead-8MiB/ok", modeName(mode)))
		}
	}
	// storing failures: empty key; no space on every root
	prev := seqrun.Content(fmt.Sprintf("c%d-prev", idx), 100)
	env.DB.Set(ctxBg, "victim", prev)
	for i := 0; i < 3; i++ {
		seq := all[rng.Intn(len(all))]
		c.Evals++
		if !c12WriteFile(&c, env, tr, "", fmt.Sprintf("c%d-e%d", idx, i), seq, false, nil, false, refmodel.EmptyKey, "empty-key") {
			return c
		}
		c.AddDistinct(fmt.Sprintf("%s/%s/empty-key", modeName(mode), shapeOf(seq)))
	}
	// the same, with the storing side's verdict already known when the tail is sent / the last Write is made
	for i, seq := range [][]int{{3}, {5000, 3}, {2048, 2048, 100}, {5000}, {1, 5000}, {300, 0, 1}} {
		c.Evals++
		label := []string{"empty-key+settled-before-close", "empty-key+settled-before-last-write"}[i/3]
		if !c12WriteFile(&c, env, tr, "", fmt.Sprintf("c%d-es%d", idx, i), seq, false, nil, false, refmodel.EmptyKey, label) {
			return c
		}
		c.AddDistinct(fmt.Sprintf("%s/%s/%s", modeName(mode), shapeOf(seq), label))
	}
	// storing failures while megabytes are still pending in the pipe (a bounded pipe must not
	// leave the writer blocked when the storing side has given up)
	for i, seq := range [][]int{{2 << 20, 1}, {1 << 20, 1 << 20, 1}, {3<<20 + 5, 0, 7}} {
		c.Evals++
		if !c12WriteFile(&c, env, tr, "", fmt.Sprintf("c%d-be%d", idx, i), seq, false, nil, false, refmodel.EmptyKey, "empty-key-big") {
			return c
		}
		c.AddDistinct(fmt.Sprintf("%s/big%d/empty-key", modeName(mode), i))
	}
	if mode == dbx.Inline && len(env.Cfg.Storage.RootDirs) >= 2 {
		// one root runs out of space at the k-th write and reports the least free space:
		// the file must continue on the other root and hold exactly what was written
		roots := env.Cfg.Storage.RootDirs
		verif.SetDiskFree(func(root string) (uint64, bool) {
			if filepath.Clean(root) == filepath.Clean(roots[0]) {
				return 1000, true
			}
			return 5000, true
		})
		for i := 0; i < 6; i++ {
			k := 1 + rng.Intn(4)
			writes := map[string]int{}
			var mu sync.Mutex
			verif.SetWriteFault(func(path string, p []byte) (int, error, bool) {
				mu.Lock()
				defer mu.Unlock()
				if !strings.HasPrefix(path, filepath.Clean(roots[0])+"/") {
					return 0, nil, false
				}
				writes[path]++
				if writes[path] >= k {
					return len(p) / 3 * (i % 2), syscall.ENOSPC, true
				}
				return 0, nil, false
			})
			seq := []int{32768, 3000, 3000, 40000, 1, 3000, 70000}[:3+rng.Intn(5)]
			if i%3 == 0 {
				seq = append([]int{100000}, seq...)
			}
			c.Evals++
			ok := c12WriteFile(&c, env, tr, fmt.Sprintf("cont%d", i%2), fmt.Sprintf("c%d-co%d", idx, i), seq, i%2 == 0, nil, false, refmodel.OK, "enospc-then-continue-on-other-root")
			if !ok {
				verif.SetWriteFault(nil)
				verif.SetDiskFree(nil)
				return c
			}
			c.AddDistinct(fmt.Sprintf("inline/%s/continue-on-other-root/k=%d", shapeOf(seq), k))
		}
		verif.SetWriteFault(nil)
		verif.SetDiskFree(nil)
	}
	if mode == dbx.Inline {
		verif.SetWriteFault(func(path string, p []byte) (int, error, bool) { return 0, syscall.ENOSPC, true })
		for i, seq := range [][]int{{2 << 20, 1}, {1 << 20, 1 << 20, 1}} {
			c.Evals++
			if !c12WriteFile(&c, env, tr, "victim", fmt.Sprintf("c%d-bn%d", idx, i), seq, false, prev, true, refmodel.NoFreeSpace, "no-space-big") {
				verif.SetWriteFault(nil)
				return c
			}
			c.AddDistinct(fmt.Sprintf("inline/big%d/no-space", i))
		}
		for i := 0; i < 3; i++ {
			seq := append([]int{1 + rng.Intn(5000)}, all[rng.Intn(len(all))]...)
			c.Evals++
			ok := c12WriteFile(&c, env, tr, "victim", fmt.Sprintf("c%d-n%d", idx, i), seq, false, prev, true, refmodel.NoFreeSpace, "no-space")
			if !ok {
				verif.SetWriteFault(nil)
				return c
			}
			c.AddDistinct(fmt.Sprintf("%s/%s/no-space", modeName(mode), shapeOf(seq)))
		}
		verif.SetWriteFault(nil)
	}
	// the content file cannot be written for a reason other than lack of space (EIO, EFBIG, ...),
	// at its k-th write, part of the chunk really written: not a no-space error, but an error
	for i := 0; i < 6; i++ {
		k := 1 + rng.Intn(2) // every file below is longer than one 32 KiB chunk: at least two writes
		e := []syscall.Errno{syscall.EIO, syscall.EFBIG, syscall.EDQUOT}[i%3]
		writes := map[string]int{}
		var mu sync.Mutex
		verif.SetWriteFault(func(path string, p []byte) (int, error, bool) {
			mu.Lock()
			defer mu.Unlock()
			writes[path]++
			if writes[path] == k {
				return len(p) / 3 * (i % 2), &os.PathError{Op: "write", Path: path, Err: e}, true
			}
			return 0, nil, false
		})
		seq := []int{40000, 3000, 70000, 1, 3000, 32768}[:2+rng.Intn(5)]
		if i%3 == 0 {
			seq = append([]int{150000}, seq...)
		}
		c.Evals++
		ok := c12WriteFile(&c, env, tr, "victim", fmt.Sprintf("c%d-we%d", idx, i), seq, i%2 == 0 && mode == dbx.Inline, prev, true, refmodel.OtherErr, "write-error-not-no-space")
		verif.SetWriteFault(nil)
		if !ok {
			return c
		}
		c.AddDistinct(fmt.Sprintf("%s/%s/write-error/k=%d", modeName(mode), shapeOf(seq), k))
	}
	// the context handed to Create is cancelled (or its deadline passes) between Create and Close,
	// after some of the content has been written: whatever Close then returns, an error means the
	// key is unchanged and nil means the whole content is there
	for i := 0; i < 6; i++ {
		rt.Beat()
		ctx, cancel := context.WithCancel(ctxBg)
		key := "victim"
		label := "context-done-before-close"
		f, err := env.DB.Create(ctx, key)
		c.Evals++
		if err != nil {
			cancel()
			c.Violate("create-failed class="+string(seqrun.Class(err)), err.Error(), map[string]any{"variant": label})
			return c
		}
		part1 := seqrun.Content(fmt.Sprintf("c%d-cx%d-a", idx, i), []int{10, 3000, 70000}[i%3])
		part2 := seqrun.Content(fmt.Sprintf("c%d-cx%d-b", idx, i), []int{1, 40000}[i%2])
		_, werr := f.Write(part1)
		if i%2 == 0 {
			time.Sleep(2 * time.Millisecond) // the storing side has consumed the first part
		}
		cancel()
		time.Sleep(time.Duration(i%3) * time.Millisecond)
		if werr == nil {
			_, werr = f.Write(part2)
		}
		cerr := f.Close()
		if werr == nil {
			werr = cerr
		}
		replay := map[string]any{"variant": label, "mode": modeName(mode), "first_part": len(part1), "second_part": len(part2), "result": fmt.Sprint(werr)}
		for probe := 0; probe < 3; probe++ {
			b, gerr := env.DB.Get(ctxBg, key)
			switch {
			case werr != nil && (gerr != nil || !bytes.Equal(b, prev)):
				c.Violate("failed-create-changed-key variant=context-done-before-close", fmt.Sprintf("Write/Close failed (%v) after the context of Create had been cancelled, and the key now reads %s (%v); before it read %s", werr, seqrun.Describe(b), gerr, seqrun.Describe(prev)), replay)
				return c
			case werr == nil && (gerr != nil || !bytes.Equal(b, append(append([]byte(nil), part1...), part2...))):
				c.Violate("stored-content-differs mode="+modeName(mode)+" variant=context-done-before-close", fmt.Sprintf("Close returned nil but Get returns %s (%v)", seqrun.Describe(b), gerr), replay)
				return c
			}
			time.Sleep(3 * time.Millisecond)
		}
		if werr == nil {
			prev = append(append([]byte(nil), part1...), part2...)
		}
		c.AddDistinct(fmt.Sprintf("%s/context-done-before-close/%d/ok=%v", modeName(mode), i%6, werr == nil))
	}
	// two (three) files open at the same time in one goroutine, written alternately, closed in
	// creation order, in reverse order, and with a Set of another key in between
	for i := 0; i < 6; i++ {
		rt.Beat()
		nf := 2 + i%2
		var files []fs_db.File
		var want [][]byte
		for j := 0; j < nf; j++ {
			f, err := env.DB.Create(ctxBg, fmt.Sprintf("multi%d", j))
			if err != nil {
				c.Violate("create-failed class="+string(seqrun.Class(err)), err.Error(), map[string]any{"variant": "several-files-open"})
				return c
			}
			files = append(files, f)
			want = append(want, nil)
		}
		c.Evals++
		var werr error
		for round := 0; round < 3 && werr == nil; round++ {
			for j, f := range files {
				b := seqrun.Content(fmt.Sprintf("c%d-m%d-%d-%d", idx, i, j, round), []int{5, 2048, 33000}[(round+j)%3])
				if _, werr = f.Write(b); werr != nil {
					break
				}
				want[j] = append(want[j], b...)
			}
			if round == 1 && i%3 == 0 {
				if err := env.DB.Set(ctxBg, "multi-set", []byte("x")); err != nil {
					werr = err
				}
			}
		}
		order := []int{0, 1, 2}[:nf]
		if i%2 == 1 {
			order = []int{2, 1, 0}[3-nf:]
		}
		for _, j := range order {
			if cerr := files[j].Close(); werr == nil {
				werr = cerr
			}
		}
		replay := map[string]any{"variant": "several-files-open", "mode": modeName(mode), "files": nf, "close_order": order}
		if werr != nil {
			c.Violate("create-write-close-error class="+string(seqrun.Class(werr))+" variant=several-files-open", fmt.Sprintf("%d files open at once: %v", nf, werr), replay)
			return c
		}
		for j := range files {
			b, gerr := env.DB.Get(ctxBg, fmt.Sprintf("multi%d", j))
			if gerr != nil || !bytes.Equal(b, want[j]) {
				c.Violate("stored-content-differs mode="+modeName(mode)+" variant=several-files-open", fmt.Sprintf("file %d of %d that were open at once: Get returns %s (%v), written %s", j, nf, seqrun.Describe(b), gerr, seqrun.Describe(want[j])), replay)
				return c
			}
		}
		c.AddDistinct(fmt.Sprintf("%s/several-files-open/%d/order=%v", modeName(mode), nf, order))
	}
	// 130 files open at the same time on one client; ordinary calls in between (bounded by a
	// five-second context: a client that has run out of something answers late or not at all)
	if idx%4 == 3 || idx%4 == 0 {
		const nOpen = 130
		var files []fs_db.File
		var wants [][]byte
		rp := map[string]any{"variant": "many-files-open", "mode": modeName(mode), "files": nOpen}
		for j := 0; j < nOpen; j++ {
			cctx, cancel := context.WithTimeout(ctxBg, 5*time.Second)
			f, err := env.DB.Create(cctx, fmt.Sprintf("open%03d", j))
			if err == nil {
				b := seqrun.Content(fmt.Sprintf("c%d-op%d", idx, j), 100+j)
				_, err = f.Write(b)
				wants = append(wants, b)
				files = append(files, f)
			}
			defer cancel()
			if err != nil {
				c.Violate("create-failed class="+string(seqrun.Class(err))+" variant=many-files-open", fmt.Sprintf("file number %d of %d that are open at the same time: %v", j+1, nOpen, err), rp)
				return c
			}
		}
		c.Evals++
		octx, ocancel := context.WithTimeout(ctxBg, 5*time.Second)
		err1 := env.DB.Set(octx, "while-open", []byte("x"))
		_, err2 := env.DB.Get(octx, "while-open")
		_, err3 := env.DB.GetKeys(octx)
		ocancel()
		if err1 != nil || err2 != nil || err3 != nil {
			c.Violate("call-fails-while-many-files-open mode="+modeName(mode), fmt.Sprintf("with %d files open on the client: Set %v, Get %v, GetKeys %v", nOpen, err1, err2, err3), rp)
			return c
		}
		for j, f := range files {
			if _, err := f.Write([]byte("tail")); err != nil {
				c.Violate("create-write-close-error variant=many-files-open", err.Error(), rp)
				return c
			}
			if err := f.Close(); err != nil {
				c.Violate("create-write-close-error variant=many-files-open", err.Error(), rp)
				return c
			}
			b, gerr := env.DB.Get(ctxBg, fmt.Sprintf("open%03d", j))
			if gerr != nil || !bytes.Equal(b, append(append([]byte(nil), wants[j]...), "tail"...)) {
				c.Violate("stored-content-differs mode="+modeName(mode)+" variant=many-files-open", fmt.Sprintf("file %d of %d: Get returns %s (%v)", j, nOpen, seqrun.Describe(b), gerr), rp)
				return c
			}
		}
		c.AddDistinct(fmt.Sprintf("%s/many-files-open/%d", modeName(mode), nOpen))
	}
	if idx == 0 {
		c.Sample = map[string]any{"sequences_in_this_case": len(mine), "first": mine[:min(4, len(mine))]}
	}
	_ = errors.Is
	_ = fs_db.ErrNotFound
	return c
}

// c12Window steers the two windows of the pipe behind Create (inline only).
func c12Window(tier string, seed int64, idx int, scratch string) rt.CaseResult {
	var c rt.CaseResult
	rt.SetWatchdogLimit(15 * time.Second)
	env, err := dbx.Open(dbx.Options{Mode: dbx.Inline, Dir: filepath.Join(scratch, "db")})
	if err != nil {
		c.Violate("open-failed", err.Error(), nil)
		return c
	}
	defer env.Close()
	tr := conc.NewTracer(false)
	tr.Install()
	defer conc.Uninstall()
	window := []string{"reader-about-to-wait<close", "reader-waiting<empty-write<data"}[idx%2]
	fmt.Fprintf(stderrW, "C12 window %s\n", window)
	key := "w"
	out := "n/a"
	switch idx % 2 {
	case 0:
		// the storing side passed its "nothing buffered, not closed" test and is about to wait;
		// Close stores the flag and broadcasts in that gap
		withData := idx%4 == 2
		f, err := env.DB.Create(ctxBg, key)
		if err != nil {
			c.Violate("create-failed", err.Error(), nil)
			return c
		}
		var want []byte
		if withData {
			for tr.Count("rw.read.wait") == 0 { // first wait (woken by the Write below)
				time.Sleep(50 * time.Microsecond)
			}
		}
		gate := tr.AddGate(&conc.Gate{WaitPoint: "rw.read.wait", SigPoint: "rw.close.broadcast", Timeout: 300 * time.Millisecond})
		if withData {
			want = seqrun.Content(fmt.Sprintf("w%d", idx), 5)
			f.Write(want)
		}
		gate.WaitReached(2 * time.Second) // the storing side is parked between its test and its wait
		cerr := f.Close()                 // on a tree with the window open this never returns: watchdog + dumps
		out = gate.Outcome()
		if cerr != nil {
			c.Violate("create-write-close-error", cerr.Error(), map[string]any{"window": window})
			return c
		}
		got, gerr := env.DB.Get(ctxBg, key)
		if gerr != nil || !bytes.Equal(got, want) {
			c.Violate("stored-content-differs mode=inline", fmt.Sprintf("window %s: Get returns %s (%v)", window, seqrun.Describe(got), gerr), map[string]any{"window": window})
			return c
		}
	default:
		seq := []int{5, 0, 5}
		if idx%4 == 3 {
			seq = []int{2048, 0, 0, 1, 0, 32768}
		}
		c.Evals++
		if !c12WriteFile(&c, env, tr, key, fmt.Sprintf("w%d", idx), seq, true, nil, false, refmodel.OK, window) {
			return c
		}
		out = "paced"
	}
	c.Evals++
	c.AddDistinct("window:" + window + "/" + out)
	c.Observe("window orders and gate outcomes", window+" -> "+out)
	if idx < 2 {
		c.Sample = map[string]any{"window": window, "outcome": out}
	}
	return c
}
