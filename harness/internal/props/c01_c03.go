package props

import (
	"fmt"
	"time"

	"verifharness/internal/dbx"
	"verifharness/internal/refmodel"
	"verifharness/internal/rt"
	"verifharness/internal/seqrun"
)

func init() {
	register(&Prop{
		ID: "C01", Level: "exploration",
		Rule:        "seeded autocommit histories (Set/SetReader/Create+Write*+Close/Delete/Get/GetReader/GetKeys, empty keys, never-written keys; hostile keys; contents on the 2048/4096/32768/65536 boundaries) run step by step against the reference model through inline.Open, with a probe of every key (Get or GetReader) and GetKeys after every step; evaluations = client calls compared (steps + probes); distinct_nontrivial = distinct (operation, key class, content length class, result class) tuples observed",
		Assumptions: []string{"reference model refmodel (written from the property statement)", "OS file system returns what was written"},
		Roles:       map[string]Role{"main": {N: func(t string) int { return tierN(t, 160, 12000) }, Case: c01Case}},
	})
	register(&Prop{
		ID: "C02", Level: "exploration",
		Rule:        "seeded histories with up to 5 simultaneously open transactions of all four levels plus the autocommit caller, sequentially interleaved Set/Delete/Get/GetKeys/Commit/Rollback and collector passes; after EVERY step every open transaction and the autocommit caller read every key and GetKeys, all compared with the reference model (RU: both datings of a committed value accepted); evaluations = reads compared; distinct_nontrivial = distinct histories that had >=2 transactions open at once, a key with >=2 committed versions and at least one instant where two actors legitimately read different results for the same key",
		Assumptions: []string{"reference model refmodel"},
		Roles:       map[string]Role{"main": {N: func(t string) int { return tierN(t, 320, 20000) }, Case: c02Case}},
	})
	register(&Prop{
		ID: "C03", Level: "exploration",
		Rule:        "seeded commit-focused histories on the inline client and (three of eight) through the gRPC server (overlapping and disjoint write sets, several writes per key through Set, SetReader and Create, deletes, conflicts made by autocommit writes and by other commits, conflicting transaction rolled back, empty transactions); every Commit/Rollback result class and a probe of ALL keys by the autocommit caller and all open transactions after every step are compared with the model (both directions of the iff); evaluations = commits+rollbacks+probes; distinct_nontrivial = distinct (level, outcome, number of writes) commit/rollback classes observed x histories",
		Assumptions: []string{"reference model refmodel"},
		Roles: map[string]Role{
			"main":        {N: func(t string) int { return tierN(t, 320, 20000) }, Case: c03Case},
			"commitfault": {N: func(t string) int { return tierN(t, 12, 480) }, Case: c03CommitFault},
		},
	})
}

func c01Case(tier string, seed int64, idx int, scratch string) rt.CaseResult {
	var c rt.CaseResult
	rng := seqrun.Rng(seed, "C01", idx)
	// key universe: a few hostile keys plus keys that are prefixes of each other
	keys := []string{"k", "k1", "k12", "never-written"}
	for i := 0; i < 4; i++ {
		keys = append(keys, seqrun.HostileKeys[rng.Intn(len(seqrun.HostileKeys))])
	}
	lens := []int{0, 1, 24, 24, 100}
	for i := 0; i < 4; i++ {
		lens = append(lens, seqrun.LenGrid[rng.Intn(len(seqrun.LenGrid))])
	}
	if idx%10 == 0 { // length sweep cases around one boundary
		b := []int{2048, 4096, 32768, 65536}[rng.Intn(4)]
		lens = []int{b - 2, b - 1, b, b + 1, b + 2, 2*b - 1, 2 * b, 2*b + 1}
	}
	p := seqrun.Profile{
		Steps: tierN(tier, 40, 80), Keys: keys[:len(keys)-0], Lens: lens, MaxOpen: 0,
		TagPrefix: fmt.Sprintf("h%d-", idx),
		W:         map[string]int{"set": 20, "setreader": 12, "create": 12, "delete": 10, "get": 8, "getreader": 8, "getreader_gc": 3, "getkeys": 5, "emptykey": 4, "collect": 3, "drain": 2},
	}
	// "never-written" must never be written: generate with the other keys for writes
	steps := seqrun.Generate(rng, p)
	for i := range steps {
		if steps[i].Key == "never-written" {
			switch steps[i].Op {
			case "set", "setreader", "create", "delete":
				steps[i].Key = "k"
			}
		}
	}
	out := runSeq(&c, scratch, "h", dbx.Options{Mode: dbx.Inline, Roots: 1 + idx%2, SendDuration: sendDur(idx)}, steps, seqrun.Options{Probe: true, ProbeReader: true}, seed)
	if out.Runner != nil {
		c.Evals = out.Runner.Stats.Steps + out.Runner.Stats.Probes
		for k := range out.Runner.Stats.OpClass {
			_ = k
		}
		done := len(steps)
		if out.Mism != nil {
			done = out.Mism.StepIdx
		}
		for _, s := range steps[:done] {
			c.AddDistinct(fmt.Sprintf("%s/%s/%s", s.Op, keyClass(s.Key), lenClass(s.Len)))
		}
		addOpClasses(&c, out.Runner, "op/actor/result classes")
		c.Count("steps", out.Runner.Stats.Steps)
		c.Count("probes", out.Runner.Stats.Probes)
	}
	if idx < 2 {
		c.Sample = map[string]any{"history": idx, "steps": sampleSteps(steps, 12)}
	}
	return c
}

func sendDur(idx int) time.Duration {
	// alternate between the direct and the deferred worker-pool path
	if idx%3 == 0 {
		return 1 // 1ns: almost every background job takes the deferred path
	}
	return 0 // default 1ms
}

var txKeys = []string{"a", "b", "c", "d"}

func c02Case(tier string, seed int64, idx int, scratch string) rt.CaseResult {
	var c rt.CaseResult
	rng := seqrun.Rng(seed, "C02", idx)
	keys := txKeys[:2+rng.Intn(3)]
	p := seqrun.Profile{
		Steps: tierN(tier, 50, 100), Keys: keys, Lens: []int{16, 16, 16, 3000}, MaxOpen: 5, TxBias: 60,
		TagPrefix: fmt.Sprintf("h%d-", idx),
		W:         map[string]int{"begin": 12, "set": 30, "delete": 8, "get": 4, "getkeys": 3, "commit": 10, "rollback": 5, "collect": 5, "drain": 1, "setreader": 2, "create": 2, "otherdb": 1, "faultwrite": 2},
	}
	if idx%7 == 3 { // many versions of one key: exercises the binary search
		p.Keys = []string{"a"}
		p.W["set"] = 60
		p.TxBias = 30
	}
	steps := seqrun.Generate(rng, p)
	mode := dbx.Inline
	if idx%5 == 4 {
		mode = dbx.Grpc // every fifth history through the server: the levels travel over the wire
	}
	out := runSeq(&c, scratch, "h", dbx.Options{Mode: mode, SendDuration: sendDur(idx)}, steps, seqrun.Options{Probe: true}, seed)
	if r := out.Runner; r != nil {
		c.Evals = r.Stats.Probes + r.Stats.Steps
		maxVers := 0
		for _, k := range r.M.Keys() {
			if v := r.M.Versions(k); v > maxVers {
				maxVers = v
			}
		}
		if r.Stats.MaxOpen >= 2 && maxVers >= 2 && r.Stats.LevelDiscrim > 0 && out.Mism == nil {
			c.AddDistinct("hist-" + hashSteps(steps))
		}
		addOpClasses(&c, r, "op/actor/result classes")
		c.Count("probe_reads", r.Stats.Probes)
		c.Count("level_discriminating_instants", r.Stats.LevelDiscrim)
		c.Count("collector_passes", r.Stats.Collected)
		c.Count(fmt.Sprintf("histories_maxopen_%d", r.Stats.MaxOpen), 1)
		if maxVers >= 10 {
			c.Count("histories_with_10plus_versions_of_a_key", 1)
		}
	}
	if idx < 2 {
		c.Sample = map[string]any{"history": idx, "steps": sampleSteps(steps, 14)}
	}
	return c
}

func c03Case(tier string, seed int64, idx int, scratch string) rt.CaseResult {
	var c rt.CaseResult
	rng := seqrun.Rng(seed, "C03", idx)
	keys := txKeys[:2+rng.Intn(3)]
	p := seqrun.Profile{
		Steps: tierN(tier, 40, 80), Keys: keys, Lens: []int{12}, MaxOpen: 4, TxBias: 70,
		TagPrefix: fmt.Sprintf("h%d-", idx),
		W:         map[string]int{"begin": 14, "set": 24, "create": 4, "setreader": 4, "delete": 8, "commit": 16, "rollback": 6, "collect": 2, "getkeys": 1, "otherdb": 1, "faultwrite": 2},
	}
	switch idx % 4 {
	case 1:
		p.Levels = []int{2, 3} // snapshot levels only: many conflicts
	case 2:
		p.Levels = []int{0, 1} // never conflict
	}
	steps := seqrun.Generate(rng, p)
	mode := dbx.Inline
	if idx%8 >= 5 {
		mode = dbx.Grpc // the same outcomes must reach a remote caller (three of eight histories)
	}
	out := runSeq(&c, scratch, "h", dbx.Options{Mode: mode, SendDuration: sendDur(idx)}, steps, seqrun.Options{Probe: true}, seed)
	if r := out.Runner; r != nil {
		var ends int64
		for k, n := range r.Stats.OpClass {
			if len(k) > 6 && (k[:6] == "commit" || k[:8] == "rollback") {
				ends += n
				if out.Mism == nil {
					c.AddDistinct(k)
				}
			}
		}
		c.Evals = ends + r.Stats.Probes
		c.Count("commits_conflicting", r.Stats.ConflictCommit)
		c.Count("commits_clean", r.Stats.CleanCommit)
		c.Count("probe_reads", r.Stats.Probes)
		addOpClasses(&c, r, "commit/rollback classes (op/level/result/writes)")
	}
	if idx < 2 {
		c.Sample = map[string]any{"history": idx, "steps": sampleSteps(steps, 14)}
	}
	_ = refmodel.OK
	return c
}
