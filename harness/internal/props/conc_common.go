package props

import (
	"fmt"
	"math/rand"
	"sort"
	"sync"
	"time"

	"github.com/glebziz/fs_db"
	"github.com/glebziz/fs_db/pkg/verif"

	"verifharness/internal/conc"
	"verifharness/internal/dbx"
	"verifharness/internal/refmodel"
	"verifharness/internal/seqrun"
)

// progOp is one operation of a concurrent program.
type progOp struct {
	Kind  string `json:"kind"` // set delete get getkeys create begin commit rollback collect sleep
	Tx    int    `json:"tx"`   // -1 autocommit; else program-wide transaction number
	Level int    `json:"level,omitempty"`
	Key   string `json:"key,omitempty"`
	Tag   string `json:"tag,omitempty"`
	Len   int    `json:"len,omitempty"`
	// Nested are operations the same client performs while its file from Create is still open
	// (after the first Write, before the rest and Close).
	Nested []progOp `json:"nested,omitempty"`
}

// program is a list of operations per client.
type program struct {
	Clients [][]progOp `json:"clients"`
	Keys    []string   `json:"keys"`
	Init    []progOp   `json:"init"`
}

// execProgram runs the program's clients concurrently on env, recording every
// call at the client boundary. Returns all recorded operations (init first).
func execProgram(env *dbx.Env, tr *conc.Tracer, p program, onStart func(client int, gid int64)) []conc.Op {
	txs := map[int]fs_db.Tx{}
	var txMu sync.Mutex
	var doOp func(rec *conc.Recorder, o progOp)
	doOp = func(rec *conc.Recorder, o progOp) {
		var st fs_db.Store = env.DB
		if o.Tx >= 0 && o.Kind != "begin" {
			txMu.Lock()
			t := txs[o.Tx]
			txMu.Unlock()
			if t == nil {
				return
			}
			st = t
		}
		switch o.Kind {
		case "set":
			v := seqrun.Content(o.Tag, o.Len)
			i := rec.Begin(conc.Op{Kind: "set", Tx: o.Tx, Key: o.Key, Val: string(v)})
			err := st.Set(ctxBg, o.Key, v)
			rec.End(i, string(seqrun.Class(err)), "", nil, err)
		case "create":
			v := seqrun.Content(o.Tag, o.Len)
			i := rec.Begin(conc.Op{Kind: "create", Tx: o.Tx, Key: o.Key, Val: string(v)})
			f, err := st.Create(ctxBg, o.Key)
			if err == nil {
				h := len(v) / 2
				_, err = f.Write(v[:h])
				for _, n := range o.Nested {
					doOp(rec, n)
				}
				if err == nil {
					_, err = f.Write(v[h:])
				}
				cerr := f.Close()
				if err == nil {
					err = cerr
				}
			}
			rec.End(i, string(seqrun.Class(err)), "", nil, err)
		case "delete":
			i := rec.Begin(conc.Op{Kind: "delete", Tx: o.Tx, Key: o.Key})
			err := st.Delete(ctxBg, o.Key)
			rec.End(i, string(seqrun.Class(err)), "", nil, err)
		case "get":
			i := rec.Begin(conc.Op{Kind: "get", Tx: o.Tx, Key: o.Key})
			b, err := st.Get(ctxBg, o.Key)
			rec.End(i, string(seqrun.Class(err)), string(b), nil, err)
		case "getkeys":
			i := rec.Begin(conc.Op{Kind: "getkeys", Tx: o.Tx})
			ks, err := st.GetKeys(ctxBg)
			rec.End(i, string(seqrun.Class(err)), "", ks, err)
		case "begin":
			i := rec.Begin(conc.Op{Kind: "begin", Tx: o.Tx, Level: o.Level})
			t, err := env.DB.Begin(ctxBg, verif.IsoLevel(o.Level))
			if err == nil {
				txMu.Lock()
				txs[o.Tx] = t
				txMu.Unlock()
			}
			rec.End(i, string(seqrun.Class(err)), "", nil, err)
		case "commit", "rollback":
			txMu.Lock()
			t := txs[o.Tx]
			txMu.Unlock()
			if t == nil {
				return
			}
			i := rec.Begin(conc.Op{Kind: o.Kind, Tx: o.Tx})
			var err error
			if o.Kind == "commit" {
				err = t.Commit(ctxBg)
			} else {
				err = t.Rollback(ctxBg)
			}
			rec.End(i, string(seqrun.Class(err)), "", nil, err)
		case "collect":
			i := rec.Begin(conc.Op{Kind: "collect", Tx: -1})
			err := env.Collect()
			rec.End(i, string(seqrun.Class(err)), "", nil, err)
		case "sleep":
			time.Sleep(time.Duration(o.Len) * time.Microsecond)
		}
	}
	initRec := &conc.Recorder{Client: 1000, G: conc.Goid(), T: tr}
	for _, o := range p.Init {
		doOp(initRec, o)
	}
	recs := make([]*conc.Recorder, len(p.Clients))
	var wg sync.WaitGroup
	start := make(chan struct{})
	ready := sync.WaitGroup{}
	for c := range p.Clients {
		wg.Add(1)
		ready.Add(1)
		recs[c] = &conc.Recorder{Client: c, T: tr}
		go func(c int) {
			defer wg.Done()
			recs[c].G = conc.Goid()
			if onStart != nil {
				onStart(c, recs[c].G)
			}
			ready.Done()
			<-start
			for _, o := range p.Clients[c] {
				doOp(recs[c], o)
			}
		}(c)
	}
	ready.Wait()
	close(start)
	wg.Wait()
	all := append([]conc.Op(nil), initRec.Ops...)
	for _, r := range recs {
		all = append(all, r.Ops...)
	}
	// final sequential reads (after a collector pass and a drain): nothing lost, nothing resurrected
	fin := &conc.Recorder{Client: 1001, G: conc.Goid(), T: tr}
	doOp(fin, progOp{Kind: "collect", Tx: -1})
	env.Drain()
	for _, k := range p.Keys {
		doOp(fin, progOp{Kind: "get", Tx: -1, Key: k})
	}
	doOp(fin, progOp{Kind: "getkeys", Tx: -1})
	return append(all, fin.Ops...)
}

// genProgram builds a random concurrent program.
func genProgram(rng *rand.Rand, tag string, clients, opsPer int, keys []string, withTx bool, levels []int, collector bool) program {
	p := program{Keys: keys}
	n := 0
	val := func() (string, int) {
		n++
		l := 20
		if rng.Intn(6) == 0 {
			l = []int{2048, 5000, 33000}[rng.Intn(3)]
		}
		return fmt.Sprintf("%sw%d", tag, n), l
	}
	for _, k := range keys {
		if rng.Intn(3) > 0 {
			t, l := val()
			p.Init = append(p.Init, progOp{Kind: "set", Tx: -1, Key: k, Tag: t, Len: l})
		}
	}
	nextTx := 0
	for c := 0; c < clients; c++ {
		var ops []progOp
		cur := -1
		for len(ops) < opsPer {
			key := keys[rng.Intn(len(keys))]
			if withTx && cur < 0 && rng.Intn(4) == 0 {
				cur = nextTx
				nextTx++
				ops = append(ops, progOp{Kind: "begin", Tx: cur, Level: levels[rng.Intn(len(levels))]})
				continue
			}
			if cur >= 0 && rng.Intn(4) == 0 {
				k := "commit"
				if rng.Intn(4) == 0 {
					k = "rollback"
				}
				ops = append(ops, progOp{Kind: k, Tx: cur})
				cur = -1
				continue
			}
			tx := -1
			if cur >= 0 && rng.Intn(5) > 0 {
				tx = cur
			}
			switch x := rng.Intn(100); {
			case x < 32:
				t, l := val()
				ops = append(ops, progOp{Kind: "set", Tx: tx, Key: key, Tag: t, Len: l})
			case x < 38:
				t, l := val()
				op := progOp{Kind: "create", Tx: tx, Key: key, Tag: t, Len: l}
				if rng.Intn(2) == 0 {
					// the client does something else while its file is open
					for i := 1 + rng.Intn(2); i > 0; i-- {
						nk := keys[rng.Intn(len(keys))]
						switch rng.Intn(4) {
						case 0:
							op.Nested = append(op.Nested, progOp{Kind: "get", Tx: tx, Key: nk})
						case 1:
							nt, nl := val()
							op.Nested = append(op.Nested, progOp{Kind: "create", Tx: tx, Key: nk, Tag: nt, Len: nl})
						default:
							nt, nl := val()
							op.Nested = append(op.Nested, progOp{Kind: "set", Tx: tx, Key: nk, Tag: nt, Len: nl})
						}
					}
				}
				ops = append(ops, op)
			case x < 48:
				ops = append(ops, progOp{Kind: "delete", Tx: tx, Key: key})
			case x < 88:
				ops = append(ops, progOp{Kind: "get", Tx: tx, Key: key})
			default:
				ops = append(ops, progOp{Kind: "getkeys", Tx: tx})
			}
		}
		if cur >= 0 {
			ops = append(ops, progOp{Kind: "commit", Tx: cur})
		}
		p.Clients = append(p.Clients, ops)
	}
	if collector {
		var ops []progOp
		for i := 0; i < opsPer; i++ {
			ops = append(ops, progOp{Kind: "collect", Tx: -1}, progOp{Kind: "sleep", Len: rng.Intn(300)})
		}
		p.Clients = append(p.Clients, ops)
	}
	return p
}

// overlapPairs lists the distinct pairs of operation kinds that overlapped in time.
func overlapPairs(ops []conc.Op) []string {
	set := map[string]struct{}{}
	for i := range ops {
		for j := i + 1; j < len(ops); j++ {
			a, b := ops[i], ops[j]
			if a.Client == b.Client || a.Client >= 1000 || b.Client >= 1000 {
				continue
			}
			if a.Call < b.Ret && b.Call < a.Ret {
				x, y := a.Kind, b.Kind
				if x > y {
					x, y = y, x
				}
				set[x+"||"+y] = struct{}{}
			}
		}
	}
	out := make([]string, 0, len(set))
	for k := range set {
		out = append(out, k)
	}
	sort.Strings(out)
	return out
}

// valueIntegrity checks that every value read was written to that key by some
// operation of the history (no foreign, partial or mixed content).
func valueIntegrity(ops []conc.Op) (bad *conc.Op, why string) {
	written := map[string]map[string]bool{}
	for _, o := range ops {
		switch o.Kind {
		case "set", "create", "setreader":
			if written[o.Key] == nil {
				written[o.Key] = map[string]bool{}
			}
			written[o.Key][o.Val] = true
		}
	}
	for i, o := range ops {
		if (o.Kind == "get" || o.Kind == "getreader") && o.Class == string(refmodel.OK) && !written[o.Key][o.Out] {
			why = "value never written to this key"
			for k, vs := range written {
				if vs[o.Out] {
					why = fmt.Sprintf("content of key %q", k)
				}
				for v := range vs {
					if len(o.Out) < len(v) && v[:len(o.Out)] == o.Out {
						why = "strict prefix of a written value (partial content)"
					}
				}
			}
			return &ops[i], why
		}
	}
	return nil, ""
}
