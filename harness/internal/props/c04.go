package props

import (
	"bufio"
	"encoding/hex"
	"encoding/json"
	"fmt"
	"os"
	"os/exec"
	"path/filepath"
	"sort"
	"strings"
	"sync"
	"sync/atomic"
	"syscall"
	"time"
	"unicode/utf8"

	"github.com/glebziz/fs_db/pkg/verif"

	"verifharness/internal/dbx"
	"verifharness/internal/refmodel"
	"verifharness/internal/rt"
	"verifharness/internal/seqrun"
)

func init() {
	Extra["crashchild"] = crashChildMain
	register(&Prop{
		ID: "C04", Level: "fault_enumeration",
		Rule:        "crash-point enumeration: a child process runs a seeded sequential workload (autocommit Set/SetReader/Create/Delete, ReadCommitted and RepeatableRead transactions with multi-key write sets, commits, rollbacks, conflicts, collector passes and worker-pool drains) on the real inline database, logging 'B i' before and 'E i <class>' after every client operation to an unbuffered file; a hook handler counts the persistent-mutation points (directory/file create/remove, every content file write and close, every Badger set/delete/transaction, the steps of Set, of the commit and of the cleaner) and kills the process with SIGKILL at the N-th. A first run without a kill learns the points; then one run per selected N. A fresh verify process opens the database, dumps GetKeys and every content, closes, opens and dumps again; further variants kill the recovery itself at its n-th mutation point and verify again, and continue writing after recovery. Oracle: with A = model state after all acknowledged operations and A' = A plus the single in-flight operation applied completely, each dump must equal A or A' exactly (keys and complete contents), both dumps must agree, every listed key must be readable. evaluations = crash runs verified; distinct_nontrivial = distinct (point name, in-flight operation kind, ordinal of the point within the operation) crash sites",
		Assumptions: []string{"a Badger Update is atomic and durable under SIGKILL of the process (page cache survives; power loss is out of scope)", "reference model refmodel"},
		Roles: map[string]Role{
			"main":       {N: func(t string) int { return c04Shards * tierN(t, 3, 24) }, Case: c04Case},
			"randomkill": {N: func(t string) int { return tierN(t, 32, 1500) }, Case: c04RandomKill},
			"chain":      {N: func(t string) int { return tierN(t, 10, 500) }, Case: c04Chain},
		},
	})
}

type crashSpec struct {
	Clients       [][]seqrun.Step `json:"clients,omitempty"` // mode stress: one step list per client (disjoint keys)
	Prefix        [][]seqrun.Step `json:"prefix,omitempty"`  // mode stress: what each client's keys went through in earlier incarnations (model only)
	Grpc          bool            `json:"grpc,omitempty"`    // run/stress: clients go through the gRPC server (same process: the kill takes both)
	KillAfterAcks int64           `json:"kill_after_acks,omitempty"`
	KillDelayUs   int64           `json:"kill_delay_us,omitempty"`
	Mode          string          `json:"mode"` // run | verify
	Dir           string          `json:"dir"`
	Steps         []seqrun.Step   `json:"steps"`
	KillAt        int64           `json:"kill_at"` // 0 = never
	Log           string          `json:"log"`
	Out           string          `json:"out"`
	Points        bool            `json:"points"` // record the point sequence
}

type crashDump struct {
	Keys []string          `json:"keys"`
	Vals map[string]string `json:"vals"` // key -> description "tag/len sum"
	Err  string            `json:"err,omitempty"`
}

// keys that are not valid UTF-8 would be rewritten by encoding/json: they travel as hex
func encK(k string) string {
	if utf8.ValidString(k) && !strings.HasPrefix(k, "hex:") {
		return k
	}
	return "hex:" + hex.EncodeToString([]byte(k))
}

func decK(k string) string {
	if h, ok := strings.CutPrefix(k, "hex:"); ok {
		if b, err := hex.DecodeString(h); err == nil {
			return string(b)
		}
	}
	return k
}

type crashDumpJSON crashDump

func (d crashDump) MarshalJSON() ([]byte, error) {
	w := crashDumpJSON{Err: d.Err, Vals: map[string]string{}}
	for _, k := range d.Keys {
		w.Keys = append(w.Keys, encK(k))
	}
	for k, v := range d.Vals {
		w.Vals[encK(k)] = v
	}
	return json.Marshal(w)
}

func (d *crashDump) UnmarshalJSON(b []byte) error {
	var w crashDumpJSON
	if err := json.Unmarshal(b, &w); err != nil {
		return err
	}
	*d = crashDump{Err: w.Err}
	for _, k := range w.Keys {
		d.Keys = append(d.Keys, decK(k))
	}
	if w.Vals != nil {
		d.Vals = map[string]string{}
		for k, v := range w.Vals {
			d.Vals[decK(k)] = v
		}
	}
	return nil
}

type crashOut struct {
	Total int64       `json:"total"`
	Names []string    `json:"names,omitempty"` // point name + "@step" per index (1-based)
	Dumps []crashDump `json:"dumps,omitempty"`
	Err   string      `json:"err,omitempty"`
	Mism  string      `json:"mism,omitempty"`
}

var crashPoints = []string{"os.", "file.write", "file.close", "badger.", "store.set.", "core.store.", "core.updatetx.seq", "core.updatetx.txnend", "cleaner.deletefile."}

func isCrashPoint(p string) bool {
	for _, pre := range crashPoints {
		if strings.HasPrefix(p, pre) {
			return true
		}
	}
	return false
}

func crashChildMain(args []string) int {
	b, err := os.ReadFile(args[0])
	if err != nil {
		return 2
	}
	var sp crashSpec
	if json.Unmarshal(b, &sp) != nil {
		return 2
	}
	rt.StartWatchdog()
	var out crashOut
	var count atomic.Int64
	var curStep atomic.Int64
	curStep.Store(-1)
	var names []string
	verif.SetHandler(func(point, id string) {
		if !isCrashPoint(point) {
			return
		}
		n := count.Add(1)
		if sp.Points {
			// single client + pool workers: a small race on this slice only affects the learning run's labels
			names = append(names, fmt.Sprintf("%s@%d", point, curStep.Load()))
		}
		if sp.KillAt > 0 && n == sp.KillAt {
			syscall.Kill(os.Getpid(), syscall.SIGKILL)
			select {}
		}
	})
	write := func() {
		out.Total = count.Load()
		out.Names = names
		ob, _ := json.Marshal(out)
		os.WriteFile(sp.Out, ob, 0o644)
	}
	mode := dbx.Inline
	if sp.Grpc && sp.Mode != "verify" {
		mode = dbx.Grpc
	}
	env, err := dbx.Open(dbx.Options{Mode: mode, Dir: sp.Dir})
	if err != nil {
		out.Err = "open: " + err.Error()
		write()
		return 0
	}
	switch sp.Mode {
	case "run":
		lf, _ := os.OpenFile(sp.Log, os.O_CREATE|os.O_WRONLY|os.O_APPEND, 0o644)
		r := seqrun.NewRunner(env, seqrun.Options{})
		for i, s := range sp.Steps {
			rt.Beat()
			curStep.Store(int64(i))
			fmt.Fprintf(lf, "B %d\n", i)
			m := r.Do(i, s)
			if m != nil {
				out.Mism = m.Error()
				fmt.Fprintf(lf, "M %d\n", i)
				break
			}
			fmt.Fprintf(lf, "E %d\n", i)
		}
		curStep.Store(-2)
		if err := env.Close(); err != nil {
			out.Err = "close: " + err.Error()
		}
	case "stress":
		// concurrent clients on disjoint keys, a collector actor; the process kills itself a seeded
		// delay after the N-th acknowledged operation: the kill lands anywhere, also inside Badger
		var acks atomic.Int64
		go func() {
			for acks.Load() < sp.KillAfterAcks {
				time.Sleep(20 * time.Microsecond)
			}
			time.Sleep(time.Duration(sp.KillDelayUs) * time.Microsecond)
			syscall.Kill(os.Getpid(), syscall.SIGKILL)
		}()
		go func() {
			for {
				env.Collect()
				time.Sleep(300 * time.Microsecond)
			}
		}()
		var wg sync.WaitGroup
		for ci, steps := range sp.Clients {
			wg.Add(1)
			go func(ci int, steps []seqrun.Step) {
				defer wg.Done()
				lf, _ := os.OpenFile(fmt.Sprintf("%s.%d", sp.Log, ci), os.O_CREATE|os.O_WRONLY|os.O_APPEND, 0o644)
				r := seqrun.NewRunner(env, seqrun.Options{})
				if ci < len(sp.Prefix) && len(sp.Prefix[ci]) > 0 {
					replayModel(r.M, sp.Prefix[ci])
					r.M.Reopen()
				}
				for i, s := range steps {
					rt.Beat()
					fmt.Fprintf(lf, "B %d\n", i)
					if m := r.Do(i, s); m != nil {
						fmt.Fprintf(lf, "M %d %s\n", i, m.Error())
						return
					}
					fmt.Fprintf(lf, "E %d\n", i)
					acks.Add(1)
				}
			}(ci, steps)
		}
		wg.Wait()
		if sp.KillAfterAcks > 0 && acks.Load() >= sp.KillAfterAcks {
			// the clients finished inside the delay before the kill: it is on its way
			time.Sleep(time.Duration(sp.KillDelayUs)*time.Microsecond + 5*time.Second)
		}
		// not killed: the workload was shorter than the kill point
		env.Close()
	case "verify":
		for round := 0; round < 2; round++ {
			var d crashDump
			d.Vals = map[string]string{}
			keys, err := env.DB.GetKeys(ctxBg)
			if err != nil {
				d.Err = "getkeys: " + err.Error()
			}
			d.Keys = keys
			for _, k := range keys {
				b, err := env.DB.Get(ctxBg, k)
				if err != nil {
					d.Vals[k] = "ERROR " + string(seqrun.Class(err)) + ": " + err.Error()
				} else {
					d.Vals[k] = dbx.Sum(b)
				}
			}
			out.Dumps = append(out.Dumps, d)
			if round == 0 {
				if err := env.Reopen(); err != nil {
					out.Err = "reopen: " + err.Error()
					break
				}
			}
		}
		// later writes must win: overwrite one key, reopen, read
		if out.Err == "" && len(sp.Steps) > 0 {
			for _, s := range sp.Steps {
				if err := env.DB.Set(ctxBg, s.Key, seqrun.Content(s.Tag, s.Len)); err != nil {
					out.Err = "post-recovery set: " + err.Error()
				}
			}
			if err := env.Reopen(); err != nil {
				out.Err = "reopen: " + err.Error()
			} else {
				var d crashDump
				d.Vals = map[string]string{}
				d.Keys, _ = env.DB.GetKeys(ctxBg)
				for _, k := range d.Keys {
					b, err := env.DB.Get(ctxBg, k)
					if err != nil {
						d.Vals[k] = "ERROR " + err.Error()
					} else {
						d.Vals[k] = dbx.Sum(b)
					}
				}
				out.Dumps = append(out.Dumps, d)
			}
		}
		env.Close()
	}
	write()
	return 0
}

func runCrashChild(scratch string, sp crashSpec, n int) (crashOut, bool, string) {
	in := filepath.Join(scratch, fmt.Sprintf("spec%d.json", n))
	sp.Out = filepath.Join(scratch, fmt.Sprintf("out%d.json", n))
	os.Remove(sp.Out)
	b, _ := json.Marshal(sp)
	os.WriteFile(in, b, 0o644)
	self, _ := os.Executable()
	logp := filepath.Join(scratch, fmt.Sprintf("child%d.log", n))
	lf, _ := os.Create(logp)
	cmd := exec.Command("timeout", "-s", "QUIT", "300", self, "crashchild", in)
	cmd.Stdout, cmd.Stderr = lf, lf
	// the child is bounded by `timeout 300`; while it runs the parent's watchdog is fed, so that a
	// slow child on a loaded machine is not mistaken for a parent that makes no progress
	stopBeat := make(chan struct{})
	go func() {
		for {
			rt.Beat()
			select {
			case <-stopBeat:
				return
			case <-time.After(5 * time.Second):
			}
		}
	}()
	err := cmd.Run()
	close(stopBeat)
	lf.Close()
	var out crashOut
	ob, rerr := os.ReadFile(sp.Out)
	if rerr == nil {
		json.Unmarshal(ob, &out)
	}
	lb, _ := os.ReadFile(logp)
	killed := err != nil && rerr != nil
	return out, killed, tailStr(string(lb), 3000)
}

func modelDump(m *refmodel.Model) crashDump {
	d := crashDump{Vals: map[string]string{}}
	for _, k := range m.Keys() {
		e := m.Get(refmodel.Autocommit, k)
		if len(e.Vals) == 1 && !e.Vals[0].Missing {
			d.Keys = append(d.Keys, k)
			d.Vals[k] = dbx.Sum([]byte(e.Vals[0].Val))
		}
	}
	sort.Strings(d.Keys)
	return d
}

func sameDump(a, b crashDump) bool {
	if strings.Join(a.Keys, "\x00") != strings.Join(b.Keys, "\x00") {
		return false
	}
	for _, k := range a.Keys {
		if a.Vals[k] != b.Vals[k] {
			return false
		}
	}
	return true
}

// c04Workload composes seeded blocks so that every workload contains autocommit writes of all
// kinds, multi-key commits (successful, conflicting), rollbacks, deletes, overwrites inside a
// transaction, collector passes and drains.
func c04Workload(seed int64, idx int, tier string) []seqrun.Step {
	rng := seqrun.Rng(seed, "C04", idx)
	var steps []seqrun.Step
	nv, ntx := 0, 0
	keys := txKeys[:3]
	val := func() (string, int) {
		nv++
		return fmt.Sprintf("w%d-v%d", idx, nv), []int{10, 10, 10, 40000, 70000}[rng.Intn(5)]
	}
	set := func(actor int, k string) {
		t, l := val()
		op := "set"
		if actor < 0 {
			op = []string{"set", "set", "setreader", "create"}[rng.Intn(4)]
		}
		steps = append(steps, seqrun.Step{Op: op, Actor: actor, Key: k, Tag: t, Len: l})
	}
	subset := func(min int) []string {
		p := rng.Perm(len(keys))
		n := min + rng.Intn(len(keys)-min+1)
		var out []string
		for _, i := range p[:n] {
			out = append(out, keys[i])
		}
		return out
	}
	blocks := []func(){
		func() { // autocommit writes
			for _, k := range subset(1) {
				set(-1, k)
			}
		},
		func() { // multi-key commit (RC or RR), no conflict
			id := ntx
			ntx++
			steps = append(steps, seqrun.Step{Op: "begin", Actor: id, Level: 1 + rng.Intn(2)})
			for _, k := range subset(2) {
				set(id, k)
				if rng.Intn(3) == 0 {
					set(id, k) // superseded inside the transaction
				}
			}
			if rng.Intn(3) == 0 {
				steps = append(steps, seqrun.Step{Op: "delete", Actor: id, Key: keys[rng.Intn(len(keys))]})
			}
			steps = append(steps, seqrun.Step{Op: "commit", Actor: id})
		},
		func() { // snapshot transaction that loses a conflict
			id := ntx
			ntx++
			steps = append(steps, seqrun.Step{Op: "begin", Actor: id, Level: 2 + rng.Intn(2)})
			ks := subset(2)
			for _, k := range ks {
				set(id, k)
			}
			set(-1, ks[0])
			steps = append(steps, seqrun.Step{Op: "commit", Actor: id})
		},
		func() { // ReadCommitted/ReadUncommitted commit over a newer autocommit write: the commit wins
			id := ntx
			ntx++
			steps = append(steps, seqrun.Step{Op: "begin", Actor: id, Level: rng.Intn(2)})
			ks := subset(1)
			for _, k := range ks {
				set(id, k)
			}
			set(-1, ks[0])
			steps = append(steps, seqrun.Step{Op: "commit", Actor: id})
		},
		func() { // rollback
			id := ntx
			ntx++
			steps = append(steps, seqrun.Step{Op: "begin", Actor: id, Level: rng.Intn(4)})
			for _, k := range subset(1) {
				set(id, k)
			}
			steps = append(steps, seqrun.Step{Op: "rollback", Actor: id})
		},
		func() { steps = append(steps, seqrun.Step{Op: "delete", Actor: -1, Key: keys[rng.Intn(len(keys))]}) },
		func() {
			steps = append(steps, seqrun.Step{Op: "collect", Actor: -1}, seqrun.Step{Op: "drain", Actor: -1})
		},
		func() { // a transaction left open across other work (its writes must never surface)
			id := ntx
			ntx++
			steps = append(steps, seqrun.Step{Op: "begin", Actor: id, Level: 1})
			set(id, keys[rng.Intn(len(keys))])
		},
	}
	if idx%3 == 2 {
		// one commit of a few thousand keys: it has to become visible as a whole however the
		// implementation chunks its writes
		id := 9000
		steps = append(steps, seqrun.Step{Op: "begin", Actor: id, Level: 1})
		n := 1100 + rng.Intn(400)
		if tier == "thorough" {
			n = 2200 + rng.Intn(1500)
		}
		for i := 0; i < n; i++ {
			steps = append(steps, seqrun.Step{Op: "set", Actor: id, Key: fmt.Sprintf("bulkc%04d", i), Tag: fmt.Sprintf("w%d-c%d", idx, i), Len: 4})
		}
		steps = append(steps, seqrun.Step{Op: "commit", Actor: id})
	}
	if idx%3 == 1 {
		// recovery has to read more version records than one iterator batch holds
		for i, n := 0, 105+rng.Intn(60); i < n; i++ {
			steps = append(steps, seqrun.Step{Op: "set", Actor: -1, Key: fmt.Sprintf("bulk%03d", i), Tag: fmt.Sprintf("w%d-b%d", idx, i), Len: 6 + i%9})
		}
	}
	rounds := tierN(tier, 2, 3)
	for r := 0; r < rounds; r++ {
		for _, bi := range rng.Perm(len(blocks)) {
			blocks[bi]()
		}
	}
	return steps
}

// every workload is split over c04Shards cases (child processes) that each take a share of its crash points
const c04Shards = 8

func c04Case(tier string, seed int64, caseIdx int, scratch string) rt.CaseResult {
	var c rt.CaseResult
	os.MkdirAll(scratch, 0o755)
	idx, shard := caseIdx/c04Shards, caseIdx%c04Shards
	steps := c04Workload(seed, idx, tier)
	// learning run
	learnDir := filepath.Join(scratch, "learn")
	lo, killed, logs := runCrashChild(scratch, crashSpec{Mode: "run", Dir: learnDir, Steps: steps, Log: filepath.Join(scratch, "learn.log"), Points: true}, 0)
	os.RemoveAll(learnDir)
	if killed || lo.Err != "" || lo.Total == 0 {
		c.Inconclusive = append(c.Inconclusive, fmt.Sprintf("learning run failed: %v %s %s", killed, lo.Err, logs))
		return c
	}
	if lo.Mism != "" {
		c.Violate("sequential-mismatch-in-crash-workload", lo.Mism, map[string]any{"steps": steps})
		return c
	}
	// choose the crash points
	var picks []int
	perStep := map[int]int{}
	for _, nm := range lo.Names {
		stepIdx := -1
		fmt.Sscanf(nm[strings.LastIndex(nm, "@")+1:], "%d", &stepIdx)
		perStep[stepIdx]++
	}
	ordInStep := map[int]int{}
	for i, nm := range lo.Names {
		stepIdx := -1
		fmt.Sscanf(nm[strings.LastIndex(nm, "@")+1:], "%d", &stepIdx)
		ordInStep[stepIdx]++
		if n, o := perStep[stepIdx], ordInStep[stepIdx]; stepIdx >= 0 && n > 400 {
			// a step with thousands of mutation points (a very large commit): a sample of them,
			// spread over the whole step, shared out over the shards
			if o%197 == 0 || o <= 2 || o > n-2 {
				if (o/197+o)%c04Shards == shard {
					picks = append(picks, i+1)
				}
			}
			continue
		}
		op := ""
		if stepIdx >= 0 && stepIdx < len(steps) {
			op = steps[stepIdx].Op
		}
		if stepIdx >= 0 && stepIdx < len(steps) && strings.HasPrefix(steps[stepIdx].Key, "bulkc") && i%307 != 0 {
			continue // the writes that prepare the very large commit
		}
		if stepIdx >= 0 && stepIdx < len(steps) && strings.HasPrefix(steps[stepIdx].Key, "bulk") && i%41 != 0 {
			continue // the bulk prefix only provides records; a few of its points are enough
		}
		important := strings.HasPrefix(nm, "core.updatetx") || strings.HasPrefix(nm, "cleaner.deletefile") || strings.HasPrefix(nm, "badger.txn") || op == "commit" || stepIdx < 0
		if (tier == "thorough" || important || i%4 == idx%4) && i%c04Shards == shard {
			picks = append(picks, i+1)
		}
	}
	if shard == 0 {
		c.Count("mutation_points_in_workloads", int64(len(lo.Names)))
	}
	type job struct{ n int }
	for _, n := range picks {
		rt.Beat()
		if len(c.Violations) >= 3 {
			break
		}
		dir := filepath.Join(scratch, fmt.Sprintf("db%d", n))
		logp := filepath.Join(scratch, fmt.Sprintf("run%d.log", n))
		os.Remove(logp)
		_, killed, clog := runCrashChild(scratch, crashSpec{Mode: "run", Dir: dir, Steps: steps, Log: logp, KillAt: int64(n)}, n)
		if !killed {
			// the point sequence differs from the learning run (background timing): not a verdict
			c.Count("runs_not_killed", 1)
			os.RemoveAll(dir)
			continue
		}
		// acknowledgement log
		acked, inflight := -1, -1
		if f, err := os.Open(logp); err == nil {
			sc := bufio.NewScanner(f)
			for sc.Scan() {
				var k string
				var i int
				fmt.Sscanf(sc.Text(), "%s %d", &k, &i)
				switch k {
				case "B":
					inflight = i
				case "E":
					acked, inflight = i, -1
				}
			}
			f.Close()
		}
		mA := refmodel.New()
		replayModel(mA, steps[:acked+1])
		mB := mA.Clone()
		inflightOp := "none"
		if inflight >= 0 {
			replayModel(mB, steps[inflight:inflight+1])
			inflightOp = steps[inflight].Op
		}
		mA.Reopen()
		mB.Reopen()
		dA, dB := modelDump(mA), modelDump(mB)
		name := lo.Names[n-1]
		site := name[:strings.LastIndex(name, "@")]
		// ordinal of the point within its step in the learning run
		ord := 0
		for j := n - 1; j >= 0 && lo.Names[j][strings.LastIndex(lo.Names[j], "@"):] == name[strings.LastIndex(name, "@"):]; j-- {
			ord++
		}
		replay := map[string]any{"seed": seed, "workload": idx, "steps": steps, "kill_at": n, "point": name, "acknowledged_through_step": acked, "in_flight_step": inflight, "expected_A": dA, "expected_A_plus_inflight": dB}
		variant := n % 3 // 0: plain verify, 1: crash during recovery first, 2: verify + continue writing
		if variant == 1 {
			// kill the recovery itself at its k-th mutation point, then verify
			k := int64(1 + n%5)
			_, rk, _ := runCrashChild(scratch, crashSpec{Mode: "verify", Dir: dir, KillAt: k}, n+100000)
			if rk {
				c.Count("recovery_crashes", 1)
			}
			replay["recovery_killed_at"] = k
		}
		var post []seqrun.Step
		if variant == 2 {
			post = []seqrun.Step{{Op: "set", Key: txKeys[0], Tag: fmt.Sprintf("post%d", n), Len: 33}}
		}
		vo, vkilled, vlog := runCrashChild(scratch, crashSpec{Mode: "verify", Dir: dir, Steps: post}, n+200000)
		os.RemoveAll(dir)
		c.Evals++
		if vkilled || vo.Err != "" || len(vo.Dumps) < 2 {
			if strings.Contains(vlog, "panic:") || strings.Contains(vlog, "fatal error:") || vo.Err != "" {
				replay["verify_log"] = vlog
				if strings.Contains(vlog, "while opening memtables") && strings.Contains(vlog, "Create a new file") {
					c.Violate("recovery-failed badger-zero-length-memtable-file", "the database does not open: a process kill hit Badger between Truncate(0) and Remove of a flushed memtable file (ristretto z.MmapFile.Delete); the zero-length NNNNN.mem makes badger.Open fail with 'while opening memtables ... Create a new file', and fs_db opens Badger with lo.Must", replay)
					continue
				}
				c.Violate("recovery-failed site="+site, fmt.Sprintf("after a crash at %s the database does not open/recover: %s %s", name, vo.Err, firstWords(vlog, 30)), replay)
			} else {
				c.Inconclusive = append(c.Inconclusive, "verify child failed: "+vlog)
			}
			continue
		}
		replay["recovered"] = vo.Dumps
		_ = clog
		d0, d1 := vo.Dumps[0], vo.Dumps[1]
		bad := ""
		for _, d := range vo.Dumps[:2] {
			if d.Err != "" {
				bad = "dump error: " + d.Err
			}
			for k, v := range d.Vals {
				if strings.HasPrefix(v, "ERROR") {
					bad = fmt.Sprintf("GetKeys lists %q but Get fails: %s", k, v)
				}
			}
		}
		switch {
		case bad != "":
			c.Violate("listed-key-unreadable site="+site, bad, replay)
		case !sameDump(d0, d1):
			c.Violate("second-open-differs site="+site, fmt.Sprintf("after a crash at %s the state after the first reopen and after the second differ", name), replay)
		case sameDump(d0, dA) && sameDump(d0, dB):
			c.Count("inflight_invisible_either_way", 1)
		case sameDump(d0, dA):
			c.Count("inflight_not_applied", 1)
		case sameDump(d0, dB):
			c.Count("inflight_applied", 1)
		default:
			what := classifyCrashDiff(d0, dA, dB)
			c.Violate(what+" site="+site+" op="+inflightOp, fmt.Sprintf("after a crash at %s (in-flight: %s) the recovered state is neither the acknowledged state nor that plus the whole in-flight operation", name, inflightOp), replay)
		}
		if variant == 2 && len(vo.Dumps) == 3 && len(c.Violations) == 0 {
			want := dbx.Sum(seqrun.Content(post[0].Tag, post[0].Len))
			if vo.Dumps[2].Vals[post[0].Key] != want {
				c.Violate("post-recovery-write-lost site="+site, "a write acknowledged after recovery is not what the key reads after the next reopen", replay)
			}
		}
		c.AddDistinct(fmt.Sprintf("%s/%s/%d", site, inflightOp, ord))
		c.Observe("crash sites (point/in-flight op)", site+"/"+inflightOp)
	}
	if caseIdx == 0 {
		c.Sample = map[string]any{"workload": sampleSteps(steps, 10), "mutation_points": len(lo.Names), "first_points": lo.Names[:min(8, len(lo.Names))]}
	}
	return c
}

func classifyCrashDiff(got, a, b crashDump) string {
	inA, inB := map[string]string{}, map[string]string{}
	for _, k := range a.Keys {
		inA[k] = a.Vals[k]
	}
	for _, k := range b.Keys {
		inB[k] = b.Vals[k]
	}
	matchA, matchB, neither := 0, 0, 0
	all := map[string]bool{}
	for _, k := range got.Keys {
		all[k] = true
	}
	for k := range inA {
		all[k] = true
	}
	for k := range inB {
		all[k] = true
	}
	for k := range all {
		g := got.Vals[k]
		switch {
		case g == inA[k] && g == inB[k]:
		case g == inA[k]:
			matchA++
		case g == inB[k]:
			matchB++
		default:
			neither++
		}
	}
	switch {
	case neither == 0 && matchA > 0 && matchB > 0:
		return "partial-in-flight-operation"
	case neither > 0:
		return "acknowledged-lost-or-uncommitted-exposed"
	}
	return "recovered-state-wrong"
}

// c04RandomKill: concurrent clients on disjoint key sets; the child kills itself at a seeded
// moment (not at a hook point); per-client oracle from per-client acknowledgement logs.
func c04RandomKill(tier string, seed int64, idx int, scratch string) rt.CaseResult {
	var c rt.CaseResult
	os.MkdirAll(scratch, 0o755)
	rng := seqrun.Rng(seed, "C04rk", idx)
	nclients := 2 + rng.Intn(3)
	var clients [][]seqrun.Step
	var keysets [][]string
	for ci := 0; ci < nclients; ci++ {
		keys := []string{fmt.Sprintf("c%d-a", ci), fmt.Sprintf("c%d-b", ci)}
		keysets = append(keysets, keys)
		p := seqrun.Profile{
			Steps: 60, Keys: keys, Lens: []int{10, 10, 20000}, MaxOpen: 1, TxBias: 75, Levels: []int{0, 1, 2},
			TagPrefix: fmt.Sprintf("k%d-c%d-", idx, ci),
			W:         map[string]int{"begin": 12, "set": 30, "delete": 6, "commit": 12, "rollback": 3, "create": 3, "get": 3},
		}
		clients = append(clients, seqrun.Generate(seqrun.Rng(seed, "C04rk-c", idx*10+ci), p))
	}
	dir := filepath.Join(scratch, "db")
	logp := filepath.Join(scratch, "ack.log")
	killAfter := int64(5 + rng.Intn(nclients*30))
	_, killed, clog := runCrashChild(scratch, crashSpec{Mode: "stress", Dir: dir, Clients: clients, Log: logp, KillAfterAcks: killAfter, KillDelayUs: int64(rng.Intn(3000))}, 1)
	if !killed {
		c.Inconclusive = append(c.Inconclusive, "stress child was not killed: "+tailStr(clog, 300))
		return c
	}
	vo, vkilled, vlog := runCrashChild(scratch, crashSpec{Mode: "verify", Dir: dir}, 2)
	os.RemoveAll(dir)
	c.Evals++
	replay := map[string]any{"seed": seed, "case": idx, "clients": clients, "kill_after_acks": killAfter}
	if vkilled || vo.Err != "" || len(vo.Dumps) < 2 {
		if strings.Contains(vlog, "while opening memtables") && strings.Contains(vlog, "Create a new file") {
			c.Violate("recovery-failed badger-zero-length-memtable-file", "the database does not open after the kill (zero-length memtable file left by Badger)", replay)
		} else if strings.Contains(vlog, "panic:") || vo.Err != "" {
			replay["verify_log"] = vlog
			c.Violate("recovery-failed random-kill", "after a kill at a seeded moment the database does not open/recover: "+vo.Err+" "+firstWords(vlog, 30), replay)
		} else {
			c.Inconclusive = append(c.Inconclusive, "verify child failed: "+tailStr(vlog, 300))
		}
		return c
	}
	replay["recovered"] = vo.Dumps
	if !sameDump(vo.Dumps[0], vo.Dumps[1]) {
		c.Violate("second-open-differs random-kill", "the state after the first reopen and after the second differ", replay)
		return c
	}
	got := vo.Dumps[0]
	for ci, steps := range clients {
		acked, inflight := -1, -1
		mism := ""
		if f, err := os.Open(fmt.Sprintf("%s.%d", logp, ci)); err == nil {
			sc := bufio.NewScanner(f)
			for sc.Scan() {
				var k string
				var i int
				fmt.Sscanf(sc.Text(), "%s %d", &k, &i)
				switch k {
				case "B":
					inflight = i
				case "E":
					acked, inflight = i, -1
				case "M":
					mism = sc.Text()
				}
			}
			f.Close()
		}
		if mism != "" {
			c.Violate("mismatch-before-kill random-kill", "client "+fmt.Sprint(ci)+" saw a wrong result before the kill: "+mism, replay)
			return c
		}
		mA := refmodel.New()
		replayModel(mA, steps[:acked+1])
		mB := mA.Clone()
		op := "none"
		if inflight >= 0 {
			replayModel(mB, steps[inflight:inflight+1])
			op = steps[inflight].Op
		}
		mA.Reopen()
		mB.Reopen()
		dA, dB := modelDump(mA), modelDump(mB)
		sub := crashDump{Vals: map[string]string{}}
		for _, k := range got.Keys {
			for _, mine := range keysets[ci] {
				if k == mine {
					sub.Keys = append(sub.Keys, k)
					sub.Vals[k] = got.Vals[k]
				}
			}
		}
		switch {
		case sameDump(sub, dA) && sameDump(sub, dB):
			c.Count("rk_inflight_invisible_either_way", 1)
		case sameDump(sub, dA):
			c.Count("rk_inflight_not_applied", 1)
		case sameDump(sub, dB):
			c.Count("rk_inflight_applied", 1)
		default:
			replay["client"], replay["acknowledged_through_step"], replay["in_flight_step"] = ci, acked, inflight
			replay["expected_A"], replay["expected_A_plus_inflight"], replay["recovered_for_client"] = dA, dB, sub
			c.Violate(classifyCrashDiff(sub, dA, dB)+" random-kill op="+op, fmt.Sprintf("after a kill at a seeded moment client %d's keys are neither in the acknowledged state nor in that plus its whole in-flight %s", ci, op), replay)
			return c
		}
		c.AddDistinct(fmt.Sprintf("rk/%s/acks=%d", op, (acked+1)/10*10))
	}
	if idx == 0 {
		c.Sample = map[string]any{"mode": "random kill", "clients": nclients, "kill_after_acks": killAfter, "first_client_steps": sampleSteps(clients[0], 8)}
	}
	return c
}

// c04Chain: several incarnations of one database in a row, each one killed at a seeded moment while
// concurrent clients (disjoint key sets, inline or through the gRPC server) are writing; after every
// kill a fresh process recovers and dumps (in a third of the generations that recovery is itself
// killed first). The oracle is cumulative: what a client's keys hold after the g-th kill must be the
// state after everything acknowledged in generations 1..g (with, for every earlier kill, the
// in-flight operation applied or not as it was observed then) or that plus the whole operation in
// flight at the g-th kill. Later incarnations write the same keys, so a record left behind by an
// earlier crash that wins over a later acknowledged write shows here.
func c04Chain(tier string, seed int64, idx int, scratch string) rt.CaseResult {
	var c rt.CaseResult
	os.MkdirAll(scratch, 0o755)
	rng := seqrun.Rng(seed, "C04ch", idx)
	nclients := 2 + rng.Intn(2)
	gens := 3 + rng.Intn(3)
	grpc := idx%3 == 2
	dir := filepath.Join(scratch, "db")
	defer os.RemoveAll(dir)
	keysets := make([][]string, nclients)
	applied := make([][]seqrun.Step, nclients) // per client: everything that took effect so far (with reopen markers)
	for ci := range keysets {
		keysets[ci] = []string{fmt.Sprintf("c%d-a", ci), fmt.Sprintf("c%d-b", ci), fmt.Sprintf("c%d-c", ci)}
		if !grpc {
			// the inline client takes any bytes as a key: one key per client that is not valid UTF-8
			// (two of them differ only in such bytes), one that ends in NUL bytes
			keysets[ci][1] = fmt.Sprintf("c%d-caf\xe9-\xff\xfe%c", ci, 0x80+ci)
			keysets[ci][2] = fmt.Sprintf("c%d-c\x00\x00", ci)
		}
	}
	var trail []map[string]any
	for g := 0; g < gens; g++ {
		rt.Beat()
		clients := make([][]seqrun.Step, nclients)
		for ci := 0; ci < nclients; ci++ {
			p := seqrun.Profile{
				Steps: 50, Keys: keysets[ci], Lens: []int{10, 10, 3000, 40000, 0}, MaxOpen: 1, TxBias: 70, Levels: []int{0, 1, 2, 3},
				TagPrefix: fmt.Sprintf("h%d-g%d-c%d-", idx, g, ci), FirstTx: g * 1000,
				W: map[string]int{"begin": 12, "set": 30, "setreader": 4, "delete": 6, "commit": 12, "rollback": 3, "create": 4, "get": 4},
			}
			clients[ci] = seqrun.Generate(seqrun.Rng(seed, "C04ch-c", (idx*10+ci)*10+g), p)
		}
		logp := filepath.Join(scratch, fmt.Sprintf("ack%d.log", g))
		killAfter := int64(3 + rng.Intn(nclients*25))
		_, killed, clog := runCrashChild(scratch, crashSpec{Mode: "stress", Dir: dir, Clients: clients, Prefix: applied, Grpc: grpc, Log: logp, KillAfterAcks: killAfter, KillDelayUs: int64(rng.Intn(3000))}, 10*g+1)
		replay := map[string]any{"seed": seed, "case": idx, "generation": g, "grpc": grpc, "earlier_generations": trail, "clients": clients, "kill_after_acks": killAfter}
		if !killed {
			if strings.Contains(clog, "panic:") || strings.Contains(clog, "fatal error:") {
				replay["log"] = clog
				c.Violate("panic-in-crash-workload chain", "the workload of generation "+fmt.Sprint(g)+" panicked: "+firstWords(clog, 30), replay)
			} else {
				c.Inconclusive = append(c.Inconclusive, fmt.Sprintf("generation %d was not killed: %s", g, tailStr(clog, 300)))
			}
			return c
		}
		if rng.Intn(3) == 0 {
			k := int64(1 + rng.Intn(6))
			if _, rk, _ := runCrashChild(scratch, crashSpec{Mode: "verify", Dir: dir, KillAt: k}, 10*g+2); rk {
				c.Count("chain_recovery_crashes", 1)
			}
			replay["recovery_killed_at"] = k
		}
		vo, vkilled, vlog := runCrashChild(scratch, crashSpec{Mode: "verify", Dir: dir}, 10*g+3)
		c.Evals++
		if vkilled || vo.Err != "" || len(vo.Dumps) < 2 {
			if strings.Contains(vlog, "while opening memtables") && strings.Contains(vlog, "Create a new file") {
				c.Violate("recovery-failed badger-zero-length-memtable-file", "the database does not open after the kill (zero-length memtable file left by Badger)", replay)
			} else if strings.Contains(vlog, "panic:") || vo.Err != "" {
				replay["verify_log"] = vlog
				c.Violate("recovery-failed chain", fmt.Sprintf("after the kill of generation %d the database does not open/recover: %s %s", g, vo.Err, firstWords(vlog, 30)), replay)
			} else {
				c.Inconclusive = append(c.Inconclusive, "verify child failed: "+tailStr(vlog, 300))
			}
			return c
		}
		replay["recovered"] = vo.Dumps
		if !sameDump(vo.Dumps[0], vo.Dumps[1]) {
			c.Violate("second-open-differs chain", fmt.Sprintf("generation %d: the state after the first reopen and after the second differ", g), replay)
			return c
		}
		got := vo.Dumps[0]
		for k, v := range got.Vals {
			if strings.HasPrefix(v, "ERROR") {
				c.Violate("listed-key-unreadable chain", fmt.Sprintf("generation %d: GetKeys lists %q but Get fails: %s", g, k, v), replay)
				return c
			}
		}
		for _, k := range got.Keys {
			owned := false
			for _, ks := range keysets {
				for _, mine := range ks {
					owned = owned || k == mine
				}
			}
			if !owned {
				c.Violate("foreign-key-after-recovery chain", fmt.Sprintf("generation %d: the recovered database lists %q, which nobody wrote", g, k), replay)
				return c
			}
		}
		gen := map[string]any{"generation": g, "kill_after_acks": killAfter}
		for ci, steps := range clients {
			acked, inflight := -1, -1
			mism := ""
			if f, err := os.Open(fmt.Sprintf("%s.%d", logp, ci)); err == nil {
				sc := bufio.NewScanner(f)
				sc.Buffer(make([]byte, 1<<20), 1<<20)
				for sc.Scan() {
					var k string
					var i int
					fmt.Sscanf(sc.Text(), "%s %d", &k, &i)
					switch k {
					case "B":
						inflight = i
					case "E":
						acked, inflight = i, -1
					case "M":
						mism = sc.Text()
					}
				}
				f.Close()
			}
			if mism != "" {
				replay["client"], replay["applied_before"] = ci, applied[ci]
				c.Violate("mismatch-before-kill chain", fmt.Sprintf("generation %d, client %d saw a wrong result before the kill (its model starts from what the earlier incarnations left): %s", g, ci, mism), replay)
				return c
			}
			mA := refmodel.New()
			replayModel(mA, applied[ci])
			mA.Reopen()
			replayModel(mA, steps[:acked+1])
			mB := mA.Clone()
			op := "none"
			if inflight >= 0 {
				replayModel(mB, steps[inflight:inflight+1])
				op = steps[inflight].Op
			}
			mA.Reopen()
			mB.Reopen()
			dA, dB := modelDump(mA), modelDump(mB)
			sub := crashDump{Vals: map[string]string{}}
			for _, k := range got.Keys {
				for _, mine := range keysets[ci] {
					if k == mine {
						sub.Keys = append(sub.Keys, k)
						sub.Vals[k] = got.Vals[k]
					}
				}
			}
			next := append(append([]seqrun.Step(nil), applied[ci]...), steps[:acked+1]...)
			switch {
			case sameDump(sub, dA) && sameDump(sub, dB):
				c.Count("chain_inflight_invisible_either_way", 1)
			case sameDump(sub, dA):
				c.Count("chain_inflight_not_applied", 1)
			case sameDump(sub, dB):
				c.Count("chain_inflight_applied", 1)
				next = append(next, steps[inflight])
			default:
				replay["client"], replay["acknowledged_through_step"], replay["in_flight_step"] = ci, acked, inflight
				replay["applied_before"] = applied[ci]
				replay["expected_A"], replay["expected_A_plus_inflight"], replay["recovered_for_client"] = dA, dB, sub
				c.Violate(classifyCrashDiff(sub, dA, dB)+" chain op="+op, fmt.Sprintf("generation %d: after the kill client %d's keys are neither in the state acknowledged over all incarnations nor in that plus its whole in-flight %s", g, ci, op), replay)
				return c
			}
			applied[ci] = append(next, seqrun.Step{Op: "reopen", Actor: refmodel.Autocommit})
			c.AddDistinct(fmt.Sprintf("chain/g%d/%s/grpc=%v", g, op, grpc))
			gen[fmt.Sprintf("client%d", ci)] = map[string]any{"acked": acked, "in_flight": inflight}
		}
		trail = append(trail, gen)
		c.Count("chain_generations", 1)
	}
	if idx == 0 {
		c.Sample = map[string]any{"mode": "crash chain", "clients": nclients, "generations": gens, "trail": trail}
	}
	return c
}
