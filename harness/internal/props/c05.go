package props

import (
	"encoding/json"
	"fmt"
	"os"
	"os/exec"
	"path/filepath"
	"strings"

	"github.com/glebziz/fs_db/pkg/verif"

	"verifharness/internal/dbx"
	"verifharness/internal/refmodel"
	"verifharness/internal/rt"
	"verifharness/internal/seqrun"
)

// segSpec is the input of the "seqseg" sub-command: run steps[Lo:Hi] against
// the database in Dir (the model replays steps[:Lo] first).
type segSpec struct {
	Steps   []seqrun.Step `json:"steps"`
	Lo, Hi  int
	Dir     string
	Mode    int
	Decoy   bool   // open (and write to) another fresh database first
	DecoyAt string // directory of the decoy database
	Out     string
}

type segResult struct {
	Mismatch *seqrun.Mismatch `json:"mismatch,omitempty"`
	Err      string           `json:"err,omitempty"`
	Steps    int64            `json:"steps"`
	Probes   int64            `json:"probes"`
}

func init() {
	Extra["seqseg"] = seqSegMain
	register(&Prop{
		ID: "C05", Level: "exploration",
		Rule:        "seeded histories (autocommit writes/deletes, transactions committed, rolled back and left open) cut into segments by Close+Open, run in four process configurations: (a) one process, one database; (b) segment 0 in a previous process, the rest in a fresh process that opens another, fresh database first (low global sequence counter, high persisted sequences); (c) two populated databases interleaved in one process; (d) every segment in its own fresh process. After every step and after every reopen all keys and GetKeys are probed against the reference model (reopen = open transactions vanish, nothing else changes); after the last reopen every key is overwritten, probed, the database reopened twice (same and new process) and probed again. evaluations = calls compared; distinct_nontrivial = distinct (configuration, history) pairs that completed with >=2 reopens and overwrites after a reopen",
		Assumptions: []string{"reference model refmodel"},
		Roles:       map[string]Role{"main": {N: func(t string) int { return tierN(t, 48, 3200) }, Case: c05Case, Batch: 1}},
	})
}

func seqSegMain(args []string) int {
	b, err := os.ReadFile(args[0])
	if err != nil {
		fmt.Fprintln(os.Stderr, err)
		return 2
	}
	var sp segSpec
	if err := json.Unmarshal(b, &sp); err != nil {
		fmt.Fprintln(os.Stderr, err)
		return 2
	}
	rt.StartWatchdog()
	res := runSegment(sp)
	ob, _ := json.Marshal(res)
	os.WriteFile(sp.Out, ob, 0o644)
	return 0
}

// runSegment runs steps[Lo:Hi] on the existing database directory.
func runSegment(sp segSpec) segResult {
	var res segResult
	if sp.Decoy {
		os.RemoveAll(sp.DecoyAt)
		d, err := dbx.Open(dbx.Options{Mode: dbx.Inline, Dir: sp.DecoyAt})
		if err != nil {
			res.Err = "decoy open: " + err.Error()
			return res
		}
		for i := 0; i < 3; i++ {
			if err := d.DB.Set(ctxBg, fmt.Sprintf("decoy%d", i), []byte("x")); err != nil {
				res.Err = "decoy set: " + err.Error()
				return res
			}
		}
		defer func() { d.Close(); os.RemoveAll(sp.DecoyAt) }()
	}
	env, err := dbx.Open(dbx.Options{Mode: dbx.Mode(sp.Mode), Dir: sp.Dir})
	if err != nil {
		res.Err = "open: " + err.Error()
		return res
	}
	r := seqrun.NewRunner(env, seqrun.Options{Probe: true})
	// replay the prefix on the model only
	replayModel(r.M, sp.Steps[:sp.Lo])
	if sp.Lo > 0 {
		// the process boundary is a reopen: every open transaction is gone
		r.M.Reopen()
		if m := r.ProbeAll(sp.Lo-1, seqrun.Step{Op: "reopen", Actor: -1}); m != nil {
			res.Mismatch = m
			env.Close()
			return res
		}
	}
	for i := sp.Lo; i < sp.Hi; i++ {
		rt.Beat()
		if m := r.Do(i, sp.Steps[i]); m != nil {
			res.Mismatch = m
			break
		}
	}
	res.Steps, res.Probes = r.Stats.Steps, r.Stats.Probes
	if err := r.Env.Close(); err != nil && res.Mismatch == nil {
		res.Err = "close: " + err.Error()
	}
	return res
}

func replayModel(m *refmodel.Model, steps []seqrun.Step) {
	for _, s := range steps {
		switch s.Op {
		case "begin":
			m.Begin(s.Actor, refmodel.Level(s.Level))
		case "set", "setreader", "create":
			m.Write(s.Actor, s.Key, string(seqrun.Content(s.Tag, s.Len)), false)
		case "delete":
			m.Write(s.Actor, s.Key, "", true)
		case "commit":
			m.Commit(s.Actor)
		case "rollback":
			m.Rollback(s.Actor)
		case "reopen":
			m.Reopen()
		}
	}
}

func runSegProcess(scratch string, sp segSpec, n int) (segResult, error) {
	in := filepath.Join(scratch, fmt.Sprintf("seg%d.json", n))
	sp.Out = filepath.Join(scratch, fmt.Sprintf("seg%d.out.json", n))
	b, _ := json.Marshal(sp)
	os.WriteFile(in, b, 0o644)
	self, _ := os.Executable()
	cmd := exec.Command("timeout", "-s", "QUIT", "600", self, "seqseg", in)
	logf, _ := os.Create(filepath.Join(scratch, fmt.Sprintf("seg%d.log", n)))
	cmd.Stdout, cmd.Stderr = logf, logf
	err := cmd.Run()
	logf.Close()
	var res segResult
	ob, rerr := os.ReadFile(sp.Out)
	if err != nil || rerr != nil {
		lb, _ := os.ReadFile(logf.Name())
		return res, fmt.Errorf("segment process failed: %v %v: %s", err, rerr, tailStr(string(lb), 2000))
	}
	json.Unmarshal(ob, &res)
	return res, nil
}

func tailStr(s string, n int) string {
	if len(s) > n {
		return s[len(s)-n:]
	}
	return s
}

// c05History generates a history with reopen steps and a final overwrite phase.
func c05History(seed int64, idx int, tier string) []seqrun.Step {
	rng := seqrun.Rng(seed, "C05", idx)
	// a few ordinary keys, a long one (records of very different lengths), a non-ASCII one
	keys := []string{"a", "b", "c", strings.Repeat("L", 300+rng.Intn(900)), "ключ/🔑"}[:3+idx%3]
	if idx%2 == 0 {
		// keys are byte strings: one that is not valid UTF-8 (these histories run on the inline client only)
		keys = append(keys, "b\xff\xfein")
	}
	p := seqrun.Profile{
		Steps: tierN(tier, 36, 60), Keys: keys, Lens: []int{14, 14, 5000, 0}, MaxOpen: 3, TxBias: 45,
		TagPrefix: fmt.Sprintf("h%d-", idx),
		W:         map[string]int{"begin": 8, "set": 30, "delete": 6, "commit": 8, "rollback": 3, "reopen": 4, "collect": 2, "drain": 1, "create": 3, "setreader": 3, "emptykey": 3, "faultwrite": 2},
	}
	steps := seqrun.Generate(rng, p)
	if idx%3 == 2 {
		// many records: Load walks more of them than one iterator batch holds
		var many []seqrun.Step
		n := 110 + rng.Intn(120)
		for i := 0; i < n; i++ {
			many = append(many, seqrun.Step{Op: "set", Actor: -1, Key: fmt.Sprintf("m%03d", i), Tag: fmt.Sprintf("h%d-m%d", idx, i), Len: 9 + i%7})
		}
		steps = append(many, steps...)
	}
	// make sure there is a reopen in the first third, then the overwrite phase
	steps = append(steps[:len(steps)/3:len(steps)/3], append([]seqrun.Step{{Op: "reopen", Actor: -1}}, steps[len(steps)/3:]...)...)
	steps = append(steps, seqrun.Step{Op: "reopen", Actor: -1})
	for i, k := range keys {
		steps = append(steps, seqrun.Step{Op: "set", Actor: -1, Key: k, Tag: fmt.Sprintf("h%d-final%d", idx, i), Len: 20})
	}
	steps = append(steps, seqrun.Step{Op: "delete", Actor: -1, Key: keys[0]})
	steps = append(steps, seqrun.Step{Op: "reopen", Actor: -1}, seqrun.Step{Op: "getkeys", Actor: -1}, seqrun.Step{Op: "reopen", Actor: -1}, seqrun.Step{Op: "getkeys", Actor: -1})
	return steps
}

func c05Case(tier string, seed int64, idx int, scratch string) rt.CaseResult {
	var c rt.CaseResult
	cfg := []string{"a:one-process", "b:prepopulated+decoy-first", "c:two-interleaved", "d:process-per-segment"}[idx%4]
	steps := c05History(seed, idx/4, tier)
	dir := filepath.Join(scratch, "db")
	os.MkdirAll(scratch, 0o755)
	if (cfg[:1] == "a" || cfg[:1] == "c") && (idx/4)%3 == 1 {
		// this process (one case per process) starts just below 2^32: the history crosses the
		// 32-bit boundary of the sequence counter and is reopened afterwards
		verif.SeqRaise(verif.Seq(1<<32 - 25))
		c.Count("histories_crossing_2^32", 1)
	}
	report := func(m *seqrun.Mismatch, extra string) {
		c.Violate(m.Sig+" config="+cfg[:1], m.Error()+" ["+cfg+"] "+extra, map[string]any{"seed": seed, "config": cfg, "steps": steps, "mismatch": m})
	}
	var reopens int
	for _, s := range steps {
		if s.Op == "reopen" {
			reopens++
		}
	}
	ok := true
	var evals int64
	segBounds := func() [][2]int {
		var out [][2]int
		lo := 0
		for i, s := range steps {
			if s.Op == "reopen" {
				out = append(out, [2]int{lo, i}) // the reopen step itself is the process boundary
				lo = i + 1
			}
		}
		return append(out, [2]int{lo, len(steps)})
	}
	switch cfg[:1] {
	case "a":
		mode := dbx.Inline
		if idx%8 == 4 {
			mode = dbx.Grpc // the server application restarts (internal/app instead of the inline constructor)
		}
		r, m, err := runOnce(dir, dbx.Options{Mode: mode}, steps, seqrun.Options{Probe: true})
		if err != nil {
			c.Violate("open-close-error config=a "+firstWords(err.Error(), 5), err.Error(), map[string]any{"steps": steps})
			ok = false
		} else if m != nil {
			report(m, "")
			ok = false
		}
		if r != nil {
			evals = r.Stats.Steps + r.Stats.Probes
		}
	case "b", "d":
		os.RemoveAll(dir)
		segs := segBounds()
		if cfg[:1] == "b" {
			// segment 0 in its own process, all the rest in one fresh process with a decoy opened first
			first := segs[0]
			rest := [2]int{segs[1][0], len(steps)}
			segs = [][2]int{first, rest}
		}
		for n, sg := range segs {
			sp := segSpec{Steps: steps, Lo: sg[0], Hi: sg[1], Dir: dir, Mode: int(dbx.Inline)}
			if cfg[:1] == "b" && n == 1 {
				sp.Decoy, sp.DecoyAt = true, filepath.Join(scratch, "decoy")
			}
			res, err := runSegProcess(scratch, sp, n)
			evals += res.Steps + res.Probes
			if err != nil {
				c.Inconclusive = append(c.Inconclusive, err.Error())
				ok = false
				break
			}
			if res.Err != "" {
				c.Violate("open-close-error config="+cfg[:1]+" "+firstWords(res.Err, 5), res.Err, map[string]any{"steps": steps, "segment": sg})
				ok = false
				break
			}
			if res.Mismatch != nil {
				report(res.Mismatch, fmt.Sprintf("segment %d = steps[%d:%d] in its own process", n, sg[0], sg[1]))
				ok = false
				break
			}
		}
		os.RemoveAll(dir)
	case "c":
		// two databases, two histories, interleaved step by step in this process
		steps2 := c05History(seed, idx/4+100000, tier)
		dir2 := filepath.Join(scratch, "db2")
		os.RemoveAll(dir)
		os.RemoveAll(dir2)
		e1, err1 := dbx.Open(dbx.Options{Mode: dbx.Inline, Dir: dir})
		e2, err2 := dbx.Open(dbx.Options{Mode: dbx.Inline, Dir: dir2})
		if err1 != nil || err2 != nil {
			c.Violate("open-close-error config=c", fmt.Sprint(err1, err2), nil)
			ok = false
			break
		}
		r1 := seqrun.NewRunner(e1, seqrun.Options{Probe: true})
		r2 := seqrun.NewRunner(e2, seqrun.Options{Probe: true})
		for i := 0; i < len(steps) || i < len(steps2); i++ {
			if i < len(steps) {
				if m := r1.Do(i, steps[i]); m != nil {
					report(m, "database 1 of 2")
					ok = false
					break
				}
			}
			if i < len(steps2) {
				if m := r2.Do(i, steps2[i]); m != nil {
					c.Violate(m.Sig+" config=c", m.Error()+" ["+cfg+"] database 2 of 2", map[string]any{"seed": seed, "config": cfg, "steps": steps2, "mismatch": m})
					ok = false
					break
				}
			}
		}
		evals = r1.Stats.Steps + r1.Stats.Probes + r2.Stats.Steps + r2.Stats.Probes
		r1.Env.Close()
		r2.Env.Close()
		os.RemoveAll(dir)
		os.RemoveAll(dir2)
	}
	c.Evals = evals
	c.Count("reopens", int64(reopens))
	c.Count("histories_config_"+cfg[:1], 1)
	if ok && reopens >= 2 {
		c.AddDistinct(cfg[:1] + "/" + hashSteps(steps))
	}
	if idx < 4 {
		c.Sample = map[string]any{"config": cfg, "steps": sampleSteps(steps, 10)}
	}
	return c
}
