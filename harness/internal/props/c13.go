package props

import (
	"bytes"
	"context"
	"github.com/glebziz/fs_db"
	"io"
	"math/rand"
	"path/filepath"
	"sync"
	"sync/atomic"
	"time"

	"fmt"
	"github.com/glebziz/fs_db/pkg/verif"
	"verifharness/internal/refmodel"

	"verifharness/internal/dbx"
	"verifharness/internal/rt"
	"verifharness/internal/seqrun"
)

func init() {
	register(&Prop{
		ID: "C13", Level: "exploration",
		Rule:        "seeded histories in which transactions of all four levels end by Commit (successful or failing with ErrTxSerialization) or Rollback and are then used again (Get, GetReader, GetKeys, Set, SetReader, Create, Delete, Commit, Rollback), plus handles naming never-begun transaction ids (UUID-shaped or not), and Commit/Rollback through handles that name no transaction at all (empty id, all-zero id); inline and gRPC clients; after every step the autocommit caller, every open transaction (RU/RC/RR/SER readers) and every ended handle probe all keys and GetKeys, and half of the histories reopen the database at the end and probe again; all compared with the reference model (late use fails with ErrTxNotFound, Rollback is a no-op, nothing changes); evaluations = late calls + probes; distinct_nontrivial = distinct (late operation, level, how the transaction ended, client, result class) tuples",
		Assumptions: []string{"reference model refmodel"},
		Roles: map[string]Role{
			"main":       {N: func(t string) int { return tierN(t, 200, 6000) }, Case: c13Case},
			"concurrent": {N: func(t string) int { return tierN(t, 16, 160) }, Case: c13Concurrent},
			"churn":      {N: func(t string) int { return tierN(t, 8, 160) }, Case: c13Churn},
		},
	})
}

func c13Case(tier string, seed int64, idx int, scratch string) rt.CaseResult {
	var c rt.CaseResult
	rng := seqrun.Rng(seed, "C13", idx)
	steps0 := tierN(tier, 45, 70)
	p := seqrun.Profile{
		Steps: steps0, Keys: txKeys[:3], Lens: []int{10, 10, 2500}, MaxOpen: 4, TxBias: 60,
		TagPrefix: fmt.Sprintf("h%d-", idx),
		W:         map[string]int{"begin": 14, "set": 22, "delete": 5, "commit": 12, "rollback": 7, "lateread": 12, "latetx": 8, "phantom": 2, "collect": 1},
	}
	withLateWrites := idx%2 == 1
	if withLateWrites {
		p.W["latewrite"] = 25
		p.NoLateWriteBefore = steps0 * 2 / 3
	}
	steps := seqrun.Generate(rng, p)
	if !withLateWrites {
		steps = append(steps, seqrun.Step{Op: "reopen", Actor: -1})
	}
	mode := dbx.Inline
	if idx%4 >= 2 {
		mode = dbx.Grpc
	}
	// how each transaction ended, for the evidence
	ended := map[int]string{}
	// ending "no transaction": a handle that names no transaction at all, or the all-zero id the
	// store uses for its committed state, is an unknown transaction like any other
	noTx := func(r *seqrun.Runner, i int, s seqrun.Step) *seqrun.Mismatch {
		if i%9 != 4 || s.Op == "reopen" {
			return nil
		}
		for _, id := range []string{"", "00000000-0000-0000-0000-000000000000"} {
			h := verif.TxHandle(r.Env.DB, id)
			op, err := "commit", error(nil)
			if (i/9)%2 == 0 {
				err = h.Commit(ctxBg)
				if seqrun.Class(err) != refmodel.TxNotFound {
					return &seqrun.Mismatch{StepIdx: i, Step: s, Sig: fmt.Sprintf("late-op-accepted op=commit actor=no-transaction-id expected=ErrTxNotFound got=%s", seqrun.Class(err)), Expected: "ErrTxNotFound", Actual: fmt.Sprint(err), Probe: fmt.Sprintf("Commit through a handle naming transaction %q", id)}
				}
			} else {
				op = "rollback"
				if err = h.Rollback(ctxBg); err != nil {
					return &seqrun.Mismatch{StepIdx: i, Step: s, Sig: "wrong-error op=rollback actor=no-transaction-id expected=ok got=" + string(seqrun.Class(err)), Expected: "ok", Actual: fmt.Sprint(err), Probe: fmt.Sprintf("Rollback through a handle naming transaction %q", id)}
				}
			}
			r.Stats.OpClass[op+"/no-transaction-id/"+string(seqrun.Class(err))]++
			if m := r.ProbeAll(i, s); m != nil {
				m.Sig += " after-ending-no-transaction"
				return m
			}
		}
		return nil
	}
	out := runSeq(&c, scratch, "h", dbx.Options{Mode: mode}, steps, seqrun.Options{Probe: true, ProbeEnded: true, AfterStep: noTx}, seed)
	if r := out.Runner; r != nil {
		done := len(steps)
		if out.Mism != nil {
			done = out.Mism.StepIdx
		}
		var late int64
		for _, s := range steps[:done] {
			switch {
			case s.Op == "phantom":
				ended[s.Actor] = "never-begun"
			case s.Late:
				late++
				c.AddDistinct(fmt.Sprintf("%s/%s/%s/%s", s.Op, r.M.LevelOf(s.Actor), ended[s.Actor], modeName(mode)))
			case s.Op == "commit":
				ended[s.Actor] = "commit"
			case s.Op == "rollback":
				ended[s.Actor] = "rollback"
			}
		}
		// mark failed commits
		c.Evals = late + r.Stats.Probes
		c.Count("late_calls", late)
		c.Count("probe_reads", r.Stats.Probes)
		c.Count("conflicting_commits", r.Stats.ConflictCommit)
		addOpClasses(&c, r, "op/actor/result classes ("+modeName(mode)+")")
	}
	if idx < 4 && idx%2 == 1 {
		c.Sample = map[string]any{"history": idx, "mode": modeName(mode), "tail_of_steps": sampleSteps(steps[len(steps)*2/3:], 14)}
	}
	return c
}

// c13Concurrent: every read issued after Commit/Rollback has returned must fail with
// ErrTxNotFound; then two goroutines end one transaction at the same moment (doubleEnd).
// Until round 12 three more goroutines kept reading through the transaction while it was ended.
// That is a use the database does not promise to support (C15: "each transaction from one
// goroutine at a time"), and at seed 5 it crashed the unchanged tree (a reader that had fetched
// the transaction's in-memory object iterates its map while the end clears the object for the
// pool): false alarm F12, the readers were removed.
func c13Concurrent(tier string, seed int64, idx int, scratch string) rt.CaseResult {
	var c rt.CaseResult
	mode := dbx.Inline
	if idx%4 == 3 {
		mode = dbx.Grpc
	}
	env, err := dbx.Open(dbx.Options{Mode: mode, Dir: filepath.Join(scratch, "db")})
	if err != nil {
		c.Violate("open-failed", err.Error(), nil)
		return c
	}
	defer env.Close()
	rng := seqrun.Rng(seed, "C13c", idx)
	env.DB.Set(ctxBg, "k", []byte("v0"))
	curD := "<" + string(refmodel.NotFound) + ">"
	iters := tierN(tier, 150, 400)
	if mode == dbx.Grpc {
		iters /= 4
	}
	for it := 0; it < iters; it++ {
		rt.Beat()
		level := rng.Intn(4)
		tx, err := env.DB.Begin(ctxBg, verif.IsoLevel(level))
		if err != nil {
			c.Violate("begin-failed", err.Error(), nil)
			return c
		}
		if rng.Intn(2) == 0 {
			tx.Set(ctxBg, "k", []byte(fmt.Sprintf("t%d-%d", idx, it)))
		}
		end := "commit"
		if rng.Intn(3) == 0 {
			end = "rollback"
			err = tx.Rollback(ctxBg)
		} else {
			err = tx.Commit(ctxBg)
		}
		ended := err == nil || seqrun.Class(err) == refmodel.TxSerial
		// reads issued from now on are after the end of the transaction
		_, e1 := tx.Get(ctxBg, "k")
		_, e2 := tx.GetKeys(ctxBg)
		_, e3 := tx.Get(ctxBg, "k")
		_, e4 := tx.GetKeys(ctxBg)
		e5 := tx.Commit(ctxBg)
		c.Evals += 5
		if !ended {
			c.Violate("end-failed op="+end, fmt.Sprint(err), nil)
			return c
		}
		for i, e := range []error{e1, e2, e3, e4, e5} {
			if cls := seqrun.Class(e); cls != refmodel.TxNotFound {
				op := []string{"get", "getkeys", "get", "getkeys", "commit"}[i]
				c.Violate(fmt.Sprintf("late-read-accepted-after-concurrent-end op=%s got=%s", op, cls), fmt.Sprintf("iteration %d (%s, level %d, %s): %s through the transaction after its %s had returned gave %s instead of ErrTxNotFound", it, modeName(mode), level, end, op, end, cls), map[string]any{"iteration": it, "mode": modeName(mode), "level": level, "end": end})
				return c
			}
		}
		c.AddDistinct(fmt.Sprintf("concurrent-end/%s/level%d/%s", modeName(mode), level, end))
		// two goroutines end one transaction at the same time: whatever the two calls return,
		// a Commit that returned nil has published the writes, and if none did nothing is visible
		for rep := 0; rep < 8; rep++ {
			var bad bool
			curD, bad = doubleEnd(&c, env, rng, fmt.Sprintf("d%d-%d-%d", idx, it, rep), curD, (it+rep)%2, "C13")
			if bad {
				return c
			}
		}
	}
	if idx == 0 {
		c.Sample = map[string]any{"scenario": "reads issued after the end must fail; Commit||Commit and Commit||Rollback on one transaction", "iterations": iters}
	}
	return c
}

// c13Churn: many goroutines begin and end transactions of all levels at the same time (each
// transaction is used by one goroutine only). Whatever the registry does to keep its order under
// concurrent Begins and ends, a handle whose Commit or Rollback has returned stays finished: every
// read and a further Commit through it fail with ErrTxNotFound, a further Rollback is a no-op -
// checked right after the end and once more at the end of each round, when all the other
// goroutines have begun and ended many transactions in between.
func c13Churn(tier string, seed int64, idx int, scratch string) rt.CaseResult {
	var c rt.CaseResult
	mode := dbx.Inline
	if idx%4 == 3 {
		mode = dbx.Grpc
	}
	env, err := dbx.Open(dbx.Options{Mode: mode, Dir: filepath.Join(scratch, "db")})
	if err != nil {
		c.Violate("open-failed", err.Error(), nil)
		return c
	}
	defer env.Close()
	env.DB.Set(ctxBg, "k", []byte("v0"))
	workers := 4 + idx%3*6
	rounds, perRound := tierN(tier, 30, 120), 12
	if mode == dbx.Grpc {
		rounds /= 3
	}
	var mu sync.Mutex
	report := func(sig, what string, rp map[string]any) {
		mu.Lock()
		defer mu.Unlock()
		if len(c.Violations) < 3 {
			c.Violate(sig, what, rp)
		}
	}
	probe := func(tx fs_db.Tx, when, end string, level int) bool {
		_, e1 := tx.Get(ctxBg, "k")
		_, e2 := tx.GetKeys(ctxBg)
		ok := true
		for i, e := range []error{e1, e2} {
			if cls := seqrun.Class(e); cls != refmodel.TxNotFound {
				op := []string{"get", "getkeys"}[i]
				report(fmt.Sprintf("late-read-accepted-under-churn op=%s got=%s", op, cls), fmt.Sprintf("%s: %s through a level-%d transaction whose %s had returned gave %s instead of ErrTxNotFound, while %d goroutines were beginning and ending transactions (%s)", when, op, level, end, cls, workers, modeName(mode)), map[string]any{"mode": modeName(mode), "level": level, "end": end, "when": when, "workers": workers})
				ok = false
			}
		}
		return ok
	}
	var evals atomic.Int64
	// several hundred transactions open at the same time (more than any small cap or batch inside
	// the registry), ended in a seeded order; each handle is probed after its end
	{
		lr := seqrun.Rng(seed, "C13many", idx)
		n := 300 + lr.Intn(400)
		open := make([]fs_db.Tx, n)
		lv := make([]int, n)
		for i := range open {
			lv[i] = lr.Intn(4)
			tx, err := env.DB.Begin(ctxBg, verif.IsoLevel(lv[i]))
			if err != nil {
				report("begin-failed many-open", fmt.Sprintf("Begin number %d with %d transactions open: %v", i+1, i, err), nil)
				break
			}
			open[i] = tx
		}
		for _, i := range lr.Perm(n) {
			if open[i] == nil || len(c.Violations) > 0 {
				continue
			}
			var err error
			end := "rollback"
			if lr.Intn(2) == 0 {
				end = "commit"
				err = open[i].Commit(ctxBg)
			} else {
				err = open[i].Rollback(ctxBg)
			}
			if err != nil {
				report("end-failed op="+end+" many-open", fmt.Sprint(err), nil)
				break
			}
			evals.Add(3)
			probe(open[i], fmt.Sprintf("right after the end, %d transactions had been open at once", n), end, lv[i])
		}
		c.AddDistinct(fmt.Sprintf("churn/%s/many-open", modeName(mode)))
	}
	for round := 0; round < rounds && len(c.Violations) == 0; round++ {
		rt.Beat()
		var wg sync.WaitGroup
		finished := make([][]fs_db.Tx, workers)
		levels := make([][]int, workers)
		start := make(chan struct{})
		for w := 0; w < workers; w++ {
			wg.Add(1)
			go func(w int) {
				defer wg.Done()
				rng := seqrun.Rng(seed, "C13ch", (idx*1000+round)*100+w)
				<-start
				for i := 0; i < perRound; i++ {
					level := rng.Intn(4)
					tx, err := env.DB.Begin(ctxBg, verif.IsoLevel(level))
					if err != nil {
						report("begin-failed", err.Error(), nil)
						return
					}
					if rng.Intn(3) == 0 {
						tx.Get(ctxBg, "k")
					}
					end := "commit"
					if rng.Intn(2) == 0 {
						end = "rollback"
						err = tx.Rollback(ctxBg)
					} else {
						err = tx.Commit(ctxBg)
					}
					if err != nil {
						report("end-failed op="+end, fmt.Sprint(err), nil)
						return
					}
					evals.Add(3)
					if !probe(tx, "right after the end", end, level) {
						return
					}
					finished[w] = append(finished[w], tx)
					levels[w] = append(levels[w], level)
				}
			}(w)
		}
		close(start)
		wg.Wait()
		if len(c.Violations) > 0 {
			break
		}
		for w := range finished {
			for i, tx := range finished[w] {
				evals.Add(4)
				if !probe(tx, "at the end of the round", "Commit/Rollback", levels[w][i]) {
					break
				}
				if e := tx.Commit(ctxBg); seqrun.Class(e) != refmodel.TxNotFound {
					report("late-commit-accepted-under-churn got="+string(seqrun.Class(e)), fmt.Sprintf("a second Commit through a finished transaction returned %v at the end of a round of concurrent Begins and ends", e), map[string]any{"mode": modeName(mode), "workers": workers})
					break
				}
				if e := tx.Rollback(ctxBg); e != nil {
					report("late-rollback-not-a-no-op-under-churn", fmt.Sprintf("Rollback through a finished transaction returned %v", e), map[string]any{"mode": modeName(mode), "workers": workers})
					break
				}
			}
		}
		c.AddDistinct(fmt.Sprintf("churn/%s/workers=%d", modeName(mode), workers))
	}
	c.Evals = evals.Load()
	if idx == 0 {
		c.Sample = map[string]any{"scenario": "goroutines beginning and ending transactions concurrently; finished handles probed right away and at the end of each round", "workers": workers, "rounds": rounds, "transactions_per_goroutine_and_round": perRound}
	}
	return c
}

func init() {
	p := Registry["C13"]
	p.Roles["deadctx"] = Role{N: func(t string) int { return tierN(t, 6, 48) }, Case: c13DeadCtx}
	p.Rule += " Role deadctx (inline and gRPC): a Commit or Rollback issued with a context that is already cancelled (over gRPC such a call never reaches the server) has not ended anything unless it returned nil; the Rollback (or Commit) with a live context that follows must really end the transaction: afterwards every read through the handle fails with ErrTxNotFound, the write of the transaction is committed exactly if a Commit returned nil, and after all ends a collector pass and a drain leave exactly one content file per key (a transaction that was never ended would pin the collector's horizon)."
}

// c13DeadCtx: ends attempted with a dead context, then the real end.
func c13DeadCtx(tier string, seed int64, idx int, scratch string) rt.CaseResult {
	var c rt.CaseResult
	mode := dbx.Inline
	if idx%2 == 1 {
		mode = dbx.Grpc
	}
	env, err := dbx.Open(dbx.Options{Mode: mode, Dir: filepath.Join(scratch, "db")})
	if err != nil {
		c.Violate("open-failed", err.Error(), nil)
		return c
	}
	defer env.Close()
	rng := seqrun.Rng(seed, "C13d", idx)
	dead, cancel := context.WithCancel(ctxBg)
	cancel()
	cur := map[string]string{}
	for it := 0; it < tierN(tier, 24, 60); it++ {
		rt.Beat()
		level := rng.Intn(4)
		key := fmt.Sprintf("k%d", it%3)
		val := fmt.Sprintf("d%d-%d", idx, it)
		tx, err := env.DB.Begin(ctxBg, verif.IsoLevel(level))
		if err != nil {
			c.Violate("begin-failed", err.Error(), nil)
			return c
		}
		if err := tx.Set(ctxBg, key, []byte(val)); err != nil {
			c.Violate("write-in-transaction-failed", err.Error(), nil)
			return c
		}
		first := []string{"commit", "rollback"}[rng.Intn(2)]
		second := []string{"rollback", "commit"}[rng.Intn(2)]
		var e1, e2 error
		if first == "commit" {
			e1 = tx.Commit(dead)
		} else {
			e1 = tx.Rollback(dead)
		}
		rp := map[string]any{"seed": seed, "case": idx, "iteration": it, "mode": modeName(mode), "level": level, "first_with_dead_context": first, "first_result": fmt.Sprint(e1), "then": second}
		committed := first == "commit" && e1 == nil
		ended := e1 == nil || seqrun.Class(e1) == refmodel.TxSerial
		if second == "commit" {
			e2 = tx.Commit(ctxBg)
			switch {
			case ended && seqrun.Class(e2) != refmodel.TxNotFound:
				c.Violate("late-commit-accepted after-end-with-dead-context got="+string(seqrun.Class(e2)), fmt.Sprintf("%s with a cancelled context returned %v (the transaction is over); the Commit that followed returned %v instead of ErrTxNotFound", first, e1, e2), rp)
				return c
			case !ended && e2 == nil:
				committed = true
			case !ended && seqrun.Class(e2) != refmodel.TxSerial && seqrun.Class(e2) != refmodel.TxNotFound:
				c.Violate("end-failed op=commit after-dead-context", fmt.Sprintf("%s with a cancelled context failed (%v); the Commit with a live context that followed failed too: %v", first, e1, e2), rp)
				return c
			}
		} else {
			e2 = tx.Rollback(ctxBg)
			if e2 != nil {
				c.Violate("end-failed op=rollback after-dead-context", fmt.Sprintf("Rollback with a live context after a %s with a cancelled context (%v) returned %v", first, e1, e2), rp)
				return c
			}
		}
		rp["second_result"] = fmt.Sprint(e2)
		c.Evals += 4
		// the transaction is over now, whichever call ended it
		_, g1 := tx.Get(ctxBg, key)
		_, g2 := tx.GetKeys(ctxBg)
		for i, e := range []error{g1, g2} {
			if cls := seqrun.Class(e); cls != refmodel.TxNotFound {
				op := []string{"get", "getkeys"}[i]
				c.Violate(fmt.Sprintf("late-read-accepted after-end-with-dead-context op=%s got=%s", op, cls), fmt.Sprintf("%s with a cancelled context (%v), then %s with a live one (%v): %s through the handle gave %s instead of ErrTxNotFound - the transaction was never ended", first, e1, second, e2, op, cls), rp)
				return c
			}
		}
		if committed {
			cur[key] = val
		}
		b, gerr := env.DB.Get(ctxBg, key)
		want, has := cur[key]
		if has && (gerr != nil || string(b) != want) || !has && seqrun.Class(gerr) != refmodel.NotFound {
			c.Violate("committed-state-wrong after-end-with-dead-context", fmt.Sprintf("%s(dead context)=%v then %s=%v: key %q reads %q (%v), expected %q (has a value: %v)", first, e1, second, e2, key, b, gerr, want, has), rp)
			return c
		}
		c.AddDistinct(fmt.Sprintf("deadctx/%s/level%d/%s-then-%s/first-ok=%v", modeName(mode), level, first, second, e1 == nil))
	}
	// nothing may be left registered: after a collector pass and a drain the roots hold exactly the
	// live contents (a transaction that was never ended would pin the collector's horizon)
	for k := range cur {
		env.DB.Set(ctxBg, k, []byte("final-"+k))
	}
	replay := map[string]any{"seed": seed, "case": idx, "mode": modeName(mode)}
	if quiesce(&c, env, replay) {
		leakCheck(&c, env, "after-ends-with-dead-contexts", replay)
	}
	if idx == 0 {
		c.Sample = map[string]any{"scenario": "Commit/Rollback with a cancelled context, then the real end", "mode": modeName(mode)}
	}
	return c
}

// doubleEnd: Commit||Commit or Commit||Rollback on one transaction, released together by a spin
// barrier. Returns the value key "d" has afterwards.
func doubleEnd(c *rt.CaseResult, env *dbx.Env, rng *rand.Rand, val, curD string, secondKind int, prop string) (string, bool) {
	tx2, err := env.DB.Begin(ctxBg, verif.IsoLevel(rng.Intn(4)))
	if err != nil {
		c.Violate("begin-failed", err.Error(), nil)
		return curD, true
	}
	tx2.Set(ctxBg, "d", []byte(val))
	second := []string{"commit", "rollback"}[secondKind]
	var errs [2]error
	var goFlag atomic.Bool
	var ewg, ready sync.WaitGroup
	for g := 0; g < 2; g++ {
		ewg.Add(1)
		ready.Add(1)
		go func(g int) {
			defer ewg.Done()
			ready.Done()
			for !goFlag.Load() {
			}
			if g == 1 && second == "rollback" {
				errs[g] = tx2.Rollback(ctxBg)
			} else {
				errs[g] = tx2.Commit(ctxBg)
			}
		}(g)
	}
	ready.Wait()
	goFlag.Store(true)
	ewg.Wait()
	committed := errs[0] == nil || (second == "commit" && errs[1] == nil)
	rp := map[string]any{"mode": modeName(env.Opt.Mode), "calls": "commit||" + second, "results": fmt.Sprint(errs[0], " / ", errs[1])}
	for g, e := range errs {
		if e != nil && seqrun.Class(e) != refmodel.TxNotFound && seqrun.Class(e) != refmodel.TxSerial {
			c.Violate("wrong-error op=concurrent-end got="+string(seqrun.Class(e)), fmt.Sprintf("call %d of commit||%s on one transaction returned %v", g, second, e), rp)
			return curD, true
		}
	}
	if second == "commit" && errs[0] == nil && errs[1] == nil {
		c.Violate("both-commits-of-one-transaction-succeeded concurrent-end", "Commit||Commit on one transaction: both returned nil, one of them must find the transaction gone", rp)
		return curD, true
	}
	b, gerr := env.DB.Get(ctxBg, "d")
	got := string(b)
	if gerr != nil {
		got = "<" + string(seqrun.Class(gerr)) + ">"
	}
	c.Evals++
	switch {
	case committed && got != val:
		c.Violate("successful-commit-lost concurrent-end", fmt.Sprintf("commit||%s on one transaction: a Commit returned nil, but key d reads %s instead of %q", second, got, val), rp)
		return curD, true
	case !committed && got != curD:
		c.Violate("write-visible-without-commit concurrent-end", fmt.Sprintf("commit||%s on one transaction: no Commit returned nil, but key d reads %s instead of %s", second, got, curD), rp)
		return curD, true
	}
	if committed {
		curD = val
	}
	c.AddDistinct(fmt.Sprintf("double-end/%s/commit||%s/committed=%v", modeName(env.Opt.Mode), second, committed))
	return curD, false
}

func init() {
	p := Registry["C13"]
	p.Roles["latelarge"] = Role{N: func(t string) int { return tierN(t, 4, 24) }, Case: c13LateLarge}
	p.Rule += " Role latelarge (inline and gRPC): large late writes - Set and SetReader of 3-9 MiB and files from Create that are closed tens of milliseconds after their first Write - through transactions that have ended (committed, rolled back, failed with a conflict) or were never begun: the refusal reaches the writer while it is still sending, and must still arrive as ErrTxNotFound; nothing becomes visible."
}

// c13LateLarge: the refusal of a late write must be ErrTxNotFound also when the upload is large.
func c13LateLarge(tier string, seed int64, idx int, scratch string) rt.CaseResult {
	var c rt.CaseResult
	mode := dbx.Inline
	if idx%2 == 1 {
		mode = dbx.Grpc
	}
	env, err := dbx.Open(dbx.Options{Mode: mode, Dir: filepath.Join(scratch, "db")})
	if err != nil {
		c.Violate("open-failed", err.Error(), nil)
		return c
	}
	defer env.Close()
	rng := seqrun.Rng(seed, "C13l", idx)
	env.DB.Set(ctxBg, "k", []byte("v0"))
	big := make([]byte, 9<<20)
	rng.Read(big)
	for it := 0; it < tierN(tier, 6, 12); it++ {
		rt.Beat()
		level := rng.Intn(4)
		var tx fs_db.Tx
		end := []string{"commit", "rollback", "never-begun"}[it%3]
		if end == "never-begun" {
			tx = verif.TxHandle(env.DB, fmt.Sprintf("%08x-1111-4111-8111-%012x", rng.Uint32(), rng.Int63n(1<<48)))
		} else {
			tx, err = env.DB.Begin(ctxBg, verif.IsoLevel(level))
			if err != nil {
				c.Violate("begin-failed", err.Error(), nil)
				return c
			}
			if end == "commit" {
				err = tx.Commit(ctxBg)
			} else {
				err = tx.Rollback(ctxBg)
			}
			if err != nil {
				c.Violate("end-failed op="+end, err.Error(), nil)
				return c
			}
		}
		size := (3 + rng.Intn(6)) << 20
		for _, api := range []string{"set", "setreader", "create"} {
			var werr error
			switch api {
			case "set":
				werr = tx.Set(ctxBg, "k", big[:size])
			case "setreader":
				werr = tx.SetReader(ctxBg, "k", &pieceSrc{data: big[:size], piece: 1000 + rng.Intn(5000)})
			default:
				var f fs_db.File
				f, werr = tx.Create(ctxBg, "k")
				if werr == nil {
					_, werr = f.Write(big[:size/2])
					time.Sleep(time.Duration(5+rng.Intn(40)) * time.Millisecond)
					if werr == nil {
						_, werr = f.Write(big[size/2 : size])
					}
					if cerr := f.Close(); werr == nil {
						werr = cerr
					}
				}
			}
			c.Evals++
			rp := map[string]any{"seed": seed, "case": idx, "mode": modeName(mode), "end": end, "level": level, "api": api, "bytes": size, "result": fmt.Sprint(werr)}
			if cls := seqrun.Class(werr); cls != refmodel.TxNotFound {
				c.Violate(fmt.Sprintf("late-large-write-wrong-result op=%s got=%s", api, cls), fmt.Sprintf("%s of %d bytes through a transaction that is over (%s) returned %v instead of ErrTxNotFound (%s client)", api, size, end, werr, modeName(mode)), rp)
				return c
			}
			if b, gerr := env.DB.Get(ctxBg, "k"); gerr != nil || string(b) != "v0" {
				c.Violate("late-write-visible op="+api, fmt.Sprintf("after the refused late %s the key reads %s (%v)", api, seqrun.Describe(b), gerr), rp)
				return c
			}
			c.AddDistinct(fmt.Sprintf("latelarge/%s/%s/%s", modeName(mode), end, api))
		}
	}
	if idx == 0 {
		c.Sample = map[string]any{"scenario": "large late writes through finished transactions", "mode": modeName(mode)}
	}
	return c
}

// pieceSrc is a reader without WriteTo that delivers its content in pieces of one size.
type pieceSrc struct {
	data  []byte
	piece int
	off   int
}

func (p *pieceSrc) Read(b []byte) (int, error) {
	if p.off >= len(p.data) {
		return 0, io.EOF
	}
	n := p.piece
	if n > len(b) {
		n = len(b)
	}
	if n > len(p.data)-p.off {
		n = len(p.data) - p.off
	}
	copy(b, p.data[p.off:p.off+n])
	p.off += n
	return n, nil
}

func init() {
	p := Registry["C13"]
	p.Roles["restartids"] = Role{N: func(t string) int { return tierN(t, 4, 32) }, Case: c13RestartIds}
	p.Rule += " Role restartids: the identifiers of 30-60 transactions that ended are noted (from the hook events at their end), the database is reopened (inline client; server application restarted), 40-80 new transactions are begun and stay open; then every old identifier is used again through a handle built for it: reads and Commit must fail with ErrTxNotFound, Rollback must be a no-op - and none of the new transactions may be harmed by it (each still reads, writes and commits)."
}

// c13RestartIds: identifiers of finished transactions stay dead across a restart.
func c13RestartIds(tier string, seed int64, idx int, scratch string) rt.CaseResult {
	var c rt.CaseResult
	mode := dbx.Inline
	if idx%2 == 1 {
		mode = dbx.Grpc
	}
	env, err := dbx.Open(dbx.Options{Mode: mode, Dir: filepath.Join(scratch, "db")})
	if err != nil {
		c.Violate("open-failed", err.Error(), nil)
		return c
	}
	defer func() { env.Close() }()
	rng := seqrun.Rng(seed, "C13r", idx)
	var mu sync.Mutex
	var ended []string
	verif.SetHandler(func(point, id string) {
		if point == "tx.commit.unregistered" || point == "tx.rollback.unregistered" {
			mu.Lock()
			ended = append(ended, id)
			mu.Unlock()
		}
	})
	env.DB.Set(ctxBg, "k", []byte("v0"))
	n1 := 30 + rng.Intn(31)
	for i := 0; i < n1; i++ {
		tx, err := env.DB.Begin(ctxBg, verif.IsoLevel(rng.Intn(4)))
		if err != nil {
			verif.SetHandler(nil)
			c.Violate("begin-failed", err.Error(), nil)
			return c
		}
		if rng.Intn(2) == 0 {
			tx.Set(ctxBg, fmt.Sprintf("old%d", i), []byte("x"))
		}
		if rng.Intn(2) == 0 {
			err = tx.Commit(ctxBg)
		} else {
			err = tx.Rollback(ctxBg)
		}
		if err != nil {
			verif.SetHandler(nil)
			c.Violate("end-failed", err.Error(), nil)
			return c
		}
	}
	verif.SetHandler(nil)
	mu.Lock()
	old := append([]string(nil), ended...)
	mu.Unlock()
	if len(old) < n1 {
		c.Inconclusive = append(c.Inconclusive, fmt.Sprintf("only %d of %d ends were observed at the hook points", len(old), n1))
		return c
	}
	if err := env.Reopen(); err != nil {
		c.Violate("reopen-failed role=restartids", err.Error(), nil)
		return c
	}
	n2 := 40 + rng.Intn(41)
	fresh := make([]fs_db.Tx, n2)
	for i := range fresh {
		tx, err := env.DB.Begin(ctxBg, verif.IsoLevel(rng.Intn(4)))
		if err != nil {
			c.Violate("begin-failed after-restart", err.Error(), nil)
			return c
		}
		fresh[i] = tx
	}
	rp := map[string]any{"seed": seed, "case": idx, "mode": modeName(mode), "ended_before_the_restart": len(old), "open_after_it": n2}
	for i, id := range old {
		h := verif.TxHandle(env.DB, id)
		_, e1 := h.Get(ctxBg, "k")
		_, e2 := h.GetKeys(ctxBg)
		e3 := h.Set(ctxBg, "k", []byte("from a dead handle"))
		c.Evals += 4
		for j, e := range []error{e1, e2, e3} {
			if cls := seqrun.Class(e); cls != refmodel.TxNotFound {
				op := []string{"get", "getkeys", "set"}[j]
				rp["identifier"] = id
				c.Violate(fmt.Sprintf("late-op-accepted after-restart op=%s got=%s", op, cls), fmt.Sprintf("the transaction %s ended before the restart; after it (and after %d new Begins) %s through a handle naming it gave %s instead of ErrTxNotFound", id, n2, op, cls), rp)
				return c
			}
		}
		var e4 error
		if i%2 == 0 {
			e4 = h.Commit(ctxBg)
			if seqrun.Class(e4) != refmodel.TxNotFound {
				rp["identifier"] = id
				c.Violate("late-op-accepted after-restart op=commit got="+string(seqrun.Class(e4)), fmt.Sprintf("Commit through the identifier %s of a transaction that ended before the restart returned %v", id, e4), rp)
				return c
			}
		} else if e4 = h.Rollback(ctxBg); e4 != nil {
			c.Violate("late-rollback-not-a-no-op after-restart", fmt.Sprint(e4), rp)
			return c
		}
	}
	// the transactions begun after the restart are all still alive and independent
	for i, tx := range fresh {
		v := []byte(fmt.Sprintf("fresh-%d-%d", idx, i))
		k := fmt.Sprintf("new%d", i)
		if err := tx.Set(ctxBg, k, v); err != nil {
			c.Violate("live-transaction-harmed-by-dead-handle op=set class="+string(seqrun.Class(err)), fmt.Sprintf("transaction %d of %d begun after the restart: Set failed after the old identifiers had been used: %v", i, n2, err), rp)
			return c
		}
		if b, gerr := tx.Get(ctxBg, k); gerr != nil || !bytes.Equal(b, v) {
			c.Violate("live-transaction-harmed-by-dead-handle op=get", fmt.Sprintf("transaction %d begun after the restart reads %q (%v) for its own write", i, b, gerr), rp)
			return c
		}
		if err := tx.Commit(ctxBg); err != nil {
			c.Violate("live-transaction-harmed-by-dead-handle op=commit class="+string(seqrun.Class(err)), fmt.Sprintf("transaction %d begun after the restart: Commit failed: %v", i, err), rp)
			return c
		}
	}
	if b, gerr := env.DB.Get(ctxBg, "k"); gerr != nil || string(b) != "v0" {
		c.Violate("late-write-visible after-restart", fmt.Sprintf("k reads %q (%v)", b, gerr), rp)
		return c
	}
	c.AddDistinct(fmt.Sprintf("restartids/%s", modeName(mode)))
	if idx == 0 {
		c.Sample = map[string]any{"ended_before_restart": len(old), "open_after_restart": n2, "mode": modeName(mode)}
	}
	return c
}
