package props

import (
	"fmt"

	"verifharness/internal/dbx"
	"verifharness/internal/rt"
	"verifharness/internal/seqrun"
)

func init() {
	register(&Prop{
		ID: "C13", Level: "exploration",
		Rule:        "seeded histories in which transactions of all four levels end by Commit (successful or failing with ErrTxSerialization) or Rollback and are then used again (Get, GetReader, GetKeys, Set, SetReader, Create, Delete, Commit, Rollback), plus handles naming never-begun transaction ids; inline and gRPC clients; after every step the autocommit caller, every open transaction (RU/RC/RR/SER readers) and every ended handle probe all keys and GetKeys, and half of the histories reopen the database at the end and probe again; all compared with the reference model (late use fails with ErrTxNotFound, Rollback is a no-op, nothing changes); evaluations = late calls + probes; distinct_nontrivial = distinct (late operation, level, how the transaction ended, client, result class) tuples",
		Assumptions: []string{"reference model refmodel"},
		Roles:       map[string]Role{"main": {N: func(t string) int { return tierN(t, 200, 3000) }, Case: c13Case}},
	})
}

func c13Case(tier string, seed int64, idx int, scratch string) rt.CaseResult {
	var c rt.CaseResult
	rng := seqrun.Rng(seed, "C13", idx)
	steps0 := tierN(tier, 45, 70)
	p := seqrun.Profile{
		Steps: steps0, Keys: txKeys[:3], Lens: []int{10, 10, 2500}, MaxOpen: 4, TxBias: 60,
		TagPrefix: fmt.Sprintf("h%d-", idx),
		W:         map[string]int{"begin": 14, "set": 22, "delete": 5, "commit": 12, "rollback": 7, "lateread": 12, "latetx": 8, "phantom": 2, "collect": 1},
	}
	withLateWrites := idx%2 == 1
	if withLateWrites {
		p.W["latewrite"] = 25
		p.NoLateWriteBefore = steps0 * 2 / 3
	}
	steps := seqrun.Generate(rng, p)
	if !withLateWrites {
		steps = append(steps, seqrun.Step{Op: "reopen", Actor: -1})
	}
	mode := dbx.Inline
	if idx%4 >= 2 {
		mode = dbx.Grpc
	}
	// how each transaction ended, for the evidence
	ended := map[int]string{}
	out := runSeq(&c, scratch, "h", dbx.Options{Mode: mode}, steps, seqrun.Options{Probe: true, ProbeEnded: true}, seed)
	if r := out.Runner; r != nil {
		done := len(steps)
		if out.Mism != nil {
			done = out.Mism.StepIdx
		}
		var late int64
		for _, s := range steps[:done] {
			switch {
			case s.Op == "phantom":
				ended[s.Actor] = "never-begun"
			case s.Late:
				late++
				c.AddDistinct(fmt.Sprintf("%s/%s/%s/%s", s.Op, r.M.LevelOf(s.Actor), ended[s.Actor], modeName(mode)))
			case s.Op == "commit":
				ended[s.Actor] = "commit"
			case s.Op == "rollback":
				ended[s.Actor] = "rollback"
			}
		}
		// mark failed commits
		c.Evals = late + r.Stats.Probes
		c.Count("late_calls", late)
		c.Count("probe_reads", r.Stats.Probes)
		c.Count("conflicting_commits", r.Stats.ConflictCommit)
		addOpClasses(&c, r, "op/actor/result classes ("+modeName(mode)+")")
	}
	if idx < 4 && idx%2 == 1 {
		c.Sample = map[string]any{"history": idx, "mode": modeName(mode), "tail_of_steps": sampleSteps(steps[len(steps)*2/3:], 14)}
	}
	return c
}
