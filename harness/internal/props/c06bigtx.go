package props

import (
	"bytes"
	"context"
	"fmt"
	"path/filepath"
	"sync"
	"sync/atomic"
	"time"

	"github.com/glebziz/fs_db/pkg/verif"

	"verifharness/internal/dbx"
	"verifharness/internal/rt"
	"verifharness/internal/seqrun"
)

func init() {
	p := Registry["C06"]
	p.Roles["bigtxend"] = Role{N: func(t string) int { return tierN(t, 3, 48) }, Case: c06BigTxEnd}
	p.Rule += " Role bigtxend: one client ends (rolls back or commits) transactions that wrote 4000-12000 keys while six other clients run small ReadCommitted transactions on keys of their own: each of them must read back its own uncommitted write, then the committed value after its Commit; the process must not die (the end of a big transaction releases its bookkeeping while others acquire theirs)."
}

// c06BigTxEnd: ends of very large transactions overlapping the first writes of new ones.
func c06BigTxEnd(tier string, seed int64, idx int, scratch string) rt.CaseResult {
	var c rt.CaseResult
	rt.SetWatchdogLimit(60 * time.Second)
	env, err := dbx.Open(dbx.Options{Mode: dbx.Inline, Dir: filepath.Join(scratch, "db"), NumWorkers: 1 + idx%3})
	if err != nil {
		c.Violate("open-failed", err.Error(), nil)
		return c
	}
	defer env.Close()
	var stop atomic.Bool
	var mu sync.Mutex
	var ops atomic.Int64
	replay := map[string]any{"seed": seed, "case": idx}
	viol := func(sig, what string) {
		mu.Lock()
		defer mu.Unlock()
		if len(c.Violations) < 3 {
			c.Violate(sig, what, replay)
		}
		stop.Store(true)
	}
	var wg sync.WaitGroup
	for g := 0; g < 6; g++ {
		wg.Add(1)
		go func(g int) {
			defer wg.Done()
			key := fmt.Sprintf("small%d", g)
			for i := 0; !stop.Load(); i++ {
				tx, err := env.DB.Begin(ctxBg, verif.IsoLevel(1))
				if err != nil {
					viol("begin-failed", err.Error())
					return
				}
				v := seqrun.Content(fmt.Sprintf("bt%d-%d-%d", idx, g, i), 16)
				if err := tx.Set(ctxBg, key, v); err != nil {
					viol("unexpected-error op=set class="+string(seqrun.Class(err)), err.Error())
					return
				}
				if b, gerr := tx.Get(ctxBg, key); gerr != nil || !bytes.Equal(b, v) {
					viol("own-write-lost-in-transaction", fmt.Sprintf("client %d: a ReadCommitted transaction wrote %q and reads back %s (%v) while another client was ending a very large transaction", g, key, seqrun.Describe(b), gerr))
					return
				}
				if err := tx.Commit(ctxBg); err != nil {
					viol("unexpected-error op=commit class="+string(seqrun.Class(err)), err.Error())
					return
				}
				if b, gerr := env.DB.Get(ctxBg, key); gerr != nil || !bytes.Equal(b, v) {
					viol("committed-write-lost", fmt.Sprintf("client %d: after its Commit %q reads %s (%v), it is the only writer of that key", g, key, seqrun.Describe(b), gerr))
					return
				}
				ops.Add(4)
			}
		}(g)
	}
	rounds := tierN(tier, 3, 6)
	for round := 0; round < rounds && !stop.Load(); round++ {
		rt.Beat()
		n := 4000 + 2000*((round+idx)%5)
		tx, err := env.DB.Begin(ctxBg, verif.IsoLevel(1))
		if err != nil {
			viol("begin-failed", err.Error())
			break
		}
		for i := 0; i < n && !stop.Load(); i++ {
			if i%512 == 0 {
				rt.Beat()
			}
			tx.Delete(ctxBg, fmt.Sprintf("big%d", i))
		}
		if round%3 == 2 {
			err = tx.Commit(ctxBg)
		} else {
			err = tx.Rollback(ctxBg)
		}
		if err != nil {
			viol("unexpected-error op=end-of-big-transaction", err.Error())
		}
		ops.Add(int64(n))
		c.AddDistinct(fmt.Sprintf("bigtxend/keys=%d/commit=%v", n, round%3 == 2))
	}
	stop.Store(true)
	wg.Wait()
	c.Evals = ops.Load()
	if idx == 0 {
		c.Sample = map[string]any{"scenario": "ends of transactions with thousands of writes vs small transactions of six other clients", "rounds": rounds}
	}
	return c
}

func init() {
	p := Registry["C06"]
	p.Roles["ids"] = Role{N: func(t string) int { return tierN(t, 4, 32) }, Case: c06Ids}
	p.Rule += " Role ids: 8-16 clients each keep 128 transactions open at the same time (begun concurrently) while writers store and read back keys of their own, and the database's identifier generator is drawn from by 16 goroutines 200000-2000000 times: no Begin may fail (an identifier handed out twice shows as ErrTxAlreadyExists), no key may read another key's content, no identifier may repeat."
}

// c06Ids: identifiers stay unique under concurrency.
func c06Ids(tier string, seed int64, idx int, scratch string) rt.CaseResult {
	var c rt.CaseResult
	rt.SetWatchdogLimit(60 * time.Second)
	env, err := dbx.Open(dbx.Options{Mode: dbx.Inline, Dir: filepath.Join(scratch, "db")})
	if err != nil {
		c.Violate("open-failed", err.Error(), nil)
		return c
	}
	defer env.Close()
	var mu sync.Mutex
	viol := func(sig, what string) {
		mu.Lock()
		defer mu.Unlock()
		if len(c.Violations) < 3 {
			c.Violate(sig, what, map[string]any{"seed": seed, "case": idx})
		}
	}
	// the generator itself, drawn from by many goroutines at once
	gen := env.C.Gen()
	const drawers = 16
	per := tierN(tier, 12500, 125000)
	ids := make([][]string, drawers)
	var wg sync.WaitGroup
	var goFlag atomic.Bool
	for g := 0; g < drawers; g++ {
		wg.Add(1)
		go func(g int) {
			defer wg.Done()
			out := make([]string, 0, per)
			for !goFlag.Load() {
			}
			for i := 0; i < per; i++ {
				out = append(out, gen.Generate())
			}
			ids[g] = out
		}(g)
	}
	// meanwhile: clients that keep many transactions open, writers that read back their own keys
	clients := 8 + idx%2*8
	for cl := 0; cl < clients; cl++ {
		wg.Add(1)
		go func(cl int) {
			defer wg.Done()
			for !goFlag.Load() {
			}
			for round := 0; round < 3; round++ {
				var open []interface{ Rollback(context.Context) error }
				for i := 0; i < 128; i++ {
					tx, err := env.DB.Begin(ctxBg, verif.IsoLevel(i%4))
					if err != nil {
						viol("begin-failed class="+string(seqrun.Class(err))+" many-open-concurrent", fmt.Sprintf("client %d: Begin number %d of its round failed while %d clients were beginning transactions at the same time: %v", cl, i, clients, err))
						break
					}
					open = append(open, tx)
				}
				for _, tx := range open {
					tx.Rollback(ctxBg)
				}
			}
		}(cl)
	}
	for w := 0; w < 4; w++ {
		wg.Add(1)
		go func(w int) {
			defer wg.Done()
			for !goFlag.Load() {
			}
			for i := 0; i < 300; i++ {
				k := fmt.Sprintf("idw%d-%d", w, i)
				v := seqrun.Content(fmt.Sprintf("ids%d-%s", idx, k), 12)
				if err := env.DB.Set(ctxBg, k, v); err != nil {
					viol("unexpected-error op=set class="+string(seqrun.Class(err)), err.Error())
					return
				}
				j := i / 2
				ok := fmt.Sprintf("idw%d-%d", w, j)
				if b, gerr := env.DB.Get(ctxBg, ok); gerr != nil || !bytes.Equal(b, seqrun.Content(fmt.Sprintf("ids%d-%s", idx, ok), 12)) {
					viol("read-foreign-or-partial-value role=ids", fmt.Sprintf("writer %d: its key %q, written once and never again, reads %s (%v)", w, ok, seqrun.Describe(b), gerr))
					return
				}
			}
		}(w)
	}
	goFlag.Store(true)
	wg.Wait()
	seen := make(map[string]struct{}, drawers*per)
	for g := range ids {
		for _, id := range ids[g] {
			if _, dup := seen[id]; dup {
				viol("identifier-issued-twice", fmt.Sprintf("the identifier generator returned %q twice among %d identifiers drawn by %d goroutines", id, drawers*per, drawers))
				break
			}
			seen[id] = struct{}{}
		}
	}
	c.Evals = int64(len(seen))
	c.AddDistinct(fmt.Sprintf("ids/clients=%d", clients))
	if idx == 0 {
		c.Sample = map[string]any{"identifiers_drawn": len(seen), "clients_with_128_open_transactions": clients}
	}
	return c
}
