package props

import (
	"bytes"
	"fmt"
	"path/filepath"
	"sync"
	"sync/atomic"
	"time"

	"github.com/glebziz/fs_db/pkg/verif"

	"verifharness/internal/dbx"
	"verifharness/internal/rt"
	"verifharness/internal/seqrun"
)

func init() {
	p := Registry["C06"]
	p.Roles["bigtxend"] = Role{N: func(t string) int { return tierN(t, 3, 48) }, Case: c06BigTxEnd}
	p.Rule += " Role bigtxend: one client ends (rolls back or commits) transactions that wrote 4000-12000 keys while six other clients run small ReadCommitted transactions on keys of their own: each of them must read back its own uncommitted write, then the committed value after its Commit; the process must not die (the end of a big transaction releases its bookkeeping while others acquire theirs)."
}

// c06BigTxEnd: ends of very large transactions overlapping the first writes of new ones.
func c06BigTxEnd(tier string, seed int64, idx int, scratch string) rt.CaseResult {
	var c rt.CaseResult
	rt.SetWatchdogLimit(60 * time.Second)
	env, err := dbx.Open(dbx.Options{Mode: dbx.Inline, Dir: filepath.Join(scratch, "db"), NumWorkers: 1 + idx%3})
	if err != nil {
		c.Violate("open-failed", err.Error(), nil)
		return c
	}
	defer env.Close()
	var stop atomic.Bool
	var mu sync.Mutex
	var ops atomic.Int64
	replay := map[string]any{"seed": seed, "case": idx}
	viol := func(sig, what string) {
		mu.Lock()
		defer mu.Unlock()
		if len(c.Violations) < 3 {
			c.Violate(sig, what, replay)
		}
		stop.Store(true)
	}
	var wg sync.WaitGroup
	for g := 0; g < 6; g++ {
		wg.Add(1)
		go func(g int) {
			defer wg.Done()
			key := fmt.Sprintf("small%d", g)
			for i := 0; !stop.Load(); i++ {
				tx, err := env.DB.Begin(ctxBg, verif.IsoLevel(1))
				if err != nil {
					viol("begin-failed", err.Error())
					return
				}
				v := seqrun.Content(fmt.Sprintf("bt%d-%d-%d", idx, g, i), 16)
				if err := tx.Set(ctxBg, key, v); err != nil {
					viol("unexpected-error op=set class="+string(seqrun.Class(err)), err.Error())
					return
				}
				if b, gerr := tx.Get(ctxBg, key); gerr != nil || !bytes.Equal(b, v) {
					viol("own-write-lost-in-transaction", fmt.Sprintf("client %d: a ReadCommitted transaction wrote %q and reads back %s (%v) while another client was ending a very large transaction", g, key, seqrun.Describe(b), gerr))
					return
				}
				if err := tx.Commit(ctxBg); err != nil {
					viol("unexpected-error op=commit class="+string(seqrun.Class(err)), err.Error())
					return
				}
				if b, gerr := env.DB.Get(ctxBg, key); gerr != nil || !bytes.Equal(b, v) {
					viol("committed-write-lost", fmt.Sprintf("client %d: after its Commit %q reads %s (%v), it is the only writer of that key", g, key, seqrun.Describe(b), gerr))
					return
				}
				ops.Add(4)
			}
		}(g)
	}
	rounds := tierN(tier, 3, 6)
	for round := 0; round < rounds && !stop.Load(); round++ {
		rt.Beat()
		n := 4000 + 2000*((round+idx)%5)
		tx, err := env.DB.Begin(ctxBg, verif.IsoLevel(1))
		if err != nil {
			viol("begin-failed", err.Error())
			break
		}
		for i := 0; i < n && !stop.Load(); i++ {
			if i%512 == 0 {
				rt.Beat()
			}
			tx.Delete(ctxBg, fmt.Sprintf("big%d", i))
		}
		if round%3 == 2 {
			err = tx.Commit(ctxBg)
		} else {
			err = tx.Rollback(ctxBg)
		}
		if err != nil {
			viol("unexpected-error op=end-of-big-transaction", err.Error())
		}
		ops.Add(int64(n))
		c.AddDistinct(fmt.Sprintf("bigtxend/keys=%d/commit=%v", n, round%3 == 2))
	}
	stop.Store(true)
	wg.Wait()
	c.Evals = ops.Load()
	if idx == 0 {
		c.Sample = map[string]any{"scenario": "ends of transactions with thousands of writes vs small transactions of six other clients", "rounds": rounds}
	}
	return c
}
