package props

import (
	"bytes"
	"context"
	"encoding/binary"
	"encoding/hex"
	"encoding/json"
	"fmt"
	"math/rand"
	"os"
	"os/exec"
	"path/filepath"
	"sort"
	"strings"

	"github.com/glebziz/fs_db/pkg/verif"

	"verifharness/internal/dbx"
	"verifharness/internal/rt"
	"verifharness/internal/seqrun"
)

func init() {
	Extra["gen-golden"] = genGolden
	register(&Prop{
		ID: "C19", Level: "exploration",
		Rule:        "the real version-record repository (repository/file: Set, GetAll) over a recording key-value provider written in the harness, against an independent encoder/decoder written from the documented layout (8-byte little-endian sequence, 16-byte transaction id, 16-byte content id, raw key). (1) seeded records (keys: empty, 1 byte, non-UTF-8, NUL, 10000 bytes; sequences 0, 1, 255, 256, 2^32+-1, 2^63, 2^64-1, random; random canonical UUIDs and the nil UUID): bytes written by the repository == specification bytes, and GetAll of specification bytes == the record; (2) committed golden hex vectors; (3) every length 0..100 of arbitrary bytes through GetAll: never panics, lengths < 40 rejected, lengths >= 40 decoded as the specification decodes them; (4) a golden Badger directory written earlier (two versions per key whose order flips under a byte-order change) opened through inline.Open must yield the recorded values. evaluations = records + byte strings + golden items; distinct_nontrivial = distinct (key class, sequence class, direction) + (length, outcome) classes",
		Assumptions: []string{"golden files under /verif/golden were written by the revision the task pinned (plus the fix: commits, none of which touches the codec)"},
		Roles: map[string]Role{
			"records": {N: func(t string) int { return tierN(t, 16, 64) }, Case: c19Records},
			"bytes":   {N: func(t string) int { return tierN(t, 4, 16) }, Case: c19Bytes},
			"golden":  {N: func(t string) int { return 1 }, Case: c19Golden},
		},
	})
}

// recProvider is a recording key-value provider.
type recProvider struct {
	data   map[string][]byte
	retain bool // keep the caller's slices until the transaction ends (as Badger does)
	held   map[string][]byte
}

func (p *recProvider) RunTransaction(ctx context.Context, fn verif.TransactionFn) error {
	if !p.retain {
		return fn(ctx)
	}
	p.held = map[string][]byte{}
	err := fn(ctx)
	for k, v := range p.held { // "commit": only now are the values read
		p.data[k] = append([]byte(nil), v...)
	}
	p.held = nil
	return err
}
func (p *recProvider) DB(context.Context) verif.QueryManager { return p }
func (p *recProvider) Set(key, val []byte) error {
	if p.held != nil {
		p.held[string(key)] = val
		return nil
	}
	p.data[string(key)] = append([]byte(nil), val...)
	return nil
}
func (p *recProvider) Get(key []byte) ([]byte, error) { return p.data[string(key)], nil }
func (p *recProvider) Delete(key []byte) error        { delete(p.data, string(key)); return nil }
func (p *recProvider) GetAll(prefix []byte) ([]verif.Item, error) {
	var keys []string
	for k := range p.data {
		if strings.HasPrefix(k, string(prefix)) {
			keys = append(keys, k)
		}
	}
	sort.Strings(keys)
	var out []verif.Item
	for _, k := range keys {
		out = append(out, verif.Item{Key: []byte(k), Value: p.data[k]})
	}
	return out, nil
}

func uuidBytes(s string) ([]byte, bool) {
	h := strings.ReplaceAll(s, "-", "")
	if len(s) != 36 || len(h) != 32 {
		return nil, false
	}
	b, err := hex.DecodeString(h)
	return b, err == nil
}

func uuidString(b []byte) string {
	h := hex.EncodeToString(b)
	return h[0:8] + "-" + h[8:12] + "-" + h[12:16] + "-" + h[16:20] + "-" + h[20:32]
}

// specEncode is the independent encoder of the documented layout.
func specEncode(f verif.File) []byte {
	out := make([]byte, 8, 40+len(f.Key))
	binary.LittleEndian.PutUint64(out, uint64(f.Seq))
	t, _ := uuidBytes(f.TxId)
	c, _ := uuidBytes(f.ContentId)
	out = append(out, t...)
	out = append(out, c...)
	return append(out, f.Key...)
}

func specDecode(b []byte) (verif.File, bool) {
	if len(b) < 40 {
		return verif.File{}, false
	}
	return verif.File{Seq: verif.Seq(binary.LittleEndian.Uint64(b[:8])), TxId: uuidString(b[8:24]), ContentId: uuidString(b[24:40]), Key: string(b[40:])}, true
}

func randUUID(rng *rand.Rand) string {
	b := make([]byte, 16)
	rng.Read(b)
	return uuidString(b)
}

var seqClasses = []struct {
	name string
	v    func(*rand.Rand) uint64
}{
	{"0", func(*rand.Rand) uint64 { return 0 }}, {"1", func(*rand.Rand) uint64 { return 1 }},
	{"255", func(*rand.Rand) uint64 { return 255 }}, {"256", func(*rand.Rand) uint64 { return 256 }},
	{"2^32-1", func(*rand.Rand) uint64 { return 1<<32 - 1 }}, {"2^32+1", func(*rand.Rand) uint64 { return 1<<32 + 1 }},
	{"2^63", func(*rand.Rand) uint64 { return 1 << 63 }}, {"2^64-1", func(*rand.Rand) uint64 { return 1<<64 - 1 }},
	{"random", func(r *rand.Rand) uint64 { return r.Uint64() }}, {"small", func(r *rand.Rand) uint64 { return uint64(r.Intn(100000)) }},
	{"asym", func(r *rand.Rand) uint64 { return 0x0102030405060708 }},
}

var keyClasses = []struct {
	name string
	v    func(*rand.Rand) string
}{
	{"empty", func(*rand.Rand) string { return "" }}, {"1byte", func(r *rand.Rand) string { return string([]byte{byte(r.Intn(256))}) }},
	{"ascii", func(r *rand.Rand) string { return fmt.Sprintf("key-%d", r.Intn(1000)) }},
	{"non-utf8", func(r *rand.Rand) string { b := make([]byte, 1+r.Intn(30)); r.Read(b); return string(b) }},
	{"nul", func(*rand.Rand) string { return "a\x00b\x00" }}, {"slash", func(*rand.Rand) string { return "file/../x" }},
	{"10000", func(r *rand.Rand) string { b := bytes.Repeat([]byte{byte('a' + r.Intn(26))}, 10000); return string(b) }},
	{"40bytes", func(*rand.Rand) string { return strings.Repeat("z", 40) }},
}

func c19Records(tier string, seed int64, idx int, scratch string) rt.CaseResult {
	var c rt.CaseResult
	rng := seqrun.Rng(seed, "C19", idx)
	n := tierN(tier, 1500, 32000)
	nilUUID := "00000000-0000-0000-0000-000000000000"
	for i := 0; i < n; i++ {
		sc := seqClasses[rng.Intn(len(seqClasses))]
		kc := keyClasses[rng.Intn(len(keyClasses))]
		f := verif.File{Key: kc.v(rng), Seq: verif.Seq(sc.v(rng)), TxId: randUUID(rng), ContentId: randUUID(rng)}
		switch rng.Intn(6) {
		case 0:
			f.TxId = nilUUID
		case 1:
			f.ContentId = nilUUID
		}
		// encode through the repository
		p := &recProvider{data: map[string][]byte{}}
		repo := verif.NewFileRepo(p)
		c.Evals++
		if err := repo.Set(context.Background(), f); err != nil {
			c.Violate("encode-error key="+kc.name, fmt.Sprintf("Set(%+v): %v", f, err), map[string]any{"record": fmt.Sprintf("%+v", f)})
			return c
		}
		got := p.data["file/"+f.ContentId]
		want := specEncode(f)
		if !bytes.Equal(got, want) {
			c.Violate("encode-layout key="+kc.name+" seq="+sc.name, fmt.Sprintf("record %s: repository wrote %x under %q, layout says %x", descFile(f), trunc(got), keysOf(p), trunc(want)), map[string]any{"record": descFile(f), "got": hex.EncodeToString(trunc(got)), "want": hex.EncodeToString(trunc(want))})
			return c
		}
		c.AddDistinct("enc/" + kc.name + "/" + sc.name)
		// decode specification bytes through the repository
		p2 := &recProvider{data: map[string][]byte{"file/" + f.ContentId: want}}
		files, err := verif.NewFileRepo(p2).GetAll(context.Background())
		c.Evals++
		if err != nil || len(files) != 1 || files[0] != f {
			c.Violate("decode-mismatch key="+kc.name+" seq="+sc.name, fmt.Sprintf("GetAll(layout bytes of %s) = %v, %v", descFile(f), descFiles(files), err), map[string]any{"record": descFile(f), "bytes": hex.EncodeToString(trunc(want))})
			return c
		}
		c.AddDistinct("dec/" + kc.name + "/" + sc.name)
	}
	// several records at once: each must decode to itself, whatever its neighbours are
	// (an empty key next to a non-empty one, a short record after a long one, ...)
	for i := 0; i < n/20; i++ {
		p := &recProvider{data: map[string][]byte{}}
		want := map[string]verif.File{}
		m := 2 + rng.Intn(6)
		for j := 0; j < m; j++ {
			kc := keyClasses[rng.Intn(len(keyClasses))]
			f := verif.File{Key: kc.v(rng), Seq: verif.Seq(seqClasses[rng.Intn(len(seqClasses))].v(rng)), TxId: randUUID(rng), ContentId: randUUID(rng)}
			if rng.Intn(3) == 0 {
				f.Key = ""
			}
			p.data["file/"+f.ContentId] = specEncode(f)
			want[f.ContentId] = f
		}
		c.Evals++
		files, err := verif.NewFileRepo(p).GetAll(context.Background())
		if err != nil || len(files) != len(want) {
			c.Violate("decode-many-count", fmt.Sprintf("GetAll of %d records returned %d (%v)", len(want), len(files), err), nil)
			return c
		}
		for _, f := range files {
			if w := want[f.ContentId]; f != w {
				c.Violate("decode-mismatch among-several-records", fmt.Sprintf("GetAll of %d records: record %s decoded as %s", len(want), descFile(w), descFile(f)), map[string]any{"want": descFile(w), "got": descFile(f), "all": descFiles(files)})
				return c
			}
		}
		c.AddDistinct(fmt.Sprintf("dec-many/%d", m))
	}
	// several records written inside ONE transaction of the provider. Like Badger, the provider
	// keeps the value slices it was handed until the transaction ends (it must not copy earlier),
	// so an encoder that reuses its buffer between records corrupts the earlier ones.
	for i := 0; i < n/20; i++ {
		p := &recProvider{data: map[string][]byte{}, retain: true}
		repo := verif.NewFileRepo(p)
		var want []verif.File
		m := 2 + rng.Intn(5)
		err := repo.RunTransaction(context.Background(), func(ctx context.Context) error {
			for j := 0; j < m; j++ {
				kc := keyClasses[rng.Intn(len(keyClasses))]
				f := verif.File{Key: kc.v(rng), Seq: verif.Seq(seqClasses[rng.Intn(len(seqClasses))].v(rng)), TxId: randUUID(rng), ContentId: randUUID(rng)}
				want = append(want, f)
				if err := repo.Set(ctx, f); err != nil {
					return err
				}
			}
			return nil
		})
		c.Evals++
		if err != nil {
			c.Violate("encode-error in-transaction", err.Error(), nil)
			return c
		}
		for _, f := range want {
			if got := p.data["file/"+f.ContentId]; !bytes.Equal(got, specEncode(f)) {
				c.Violate("encode-layout several-records-in-one-transaction", fmt.Sprintf("%d records written in one transaction: record %s was stored as %x", m, descFile(f), trunc(got)), map[string]any{"record": descFile(f), "got": hex.EncodeToString(trunc(got)), "want": hex.EncodeToString(trunc(specEncode(f)))})
				return c
			}
		}
		c.AddDistinct(fmt.Sprintf("enc-tx/%d", m))
	}
	if idx == 0 {
		f := verif.File{Key: "key", Seq: 0x0102030405060708, TxId: "00112233-4455-6677-8899-aabbccddeeff", ContentId: "ffeeddcc-bbaa-9988-7766-554433221100"}
		c.Sample = map[string]any{"record": descFile(f), "layout_bytes": hex.EncodeToString(specEncode(f))}
	}
	return c
}

func keysOf(p *recProvider) []string {
	var ks []string
	for k := range p.data {
		ks = append(ks, k)
	}
	return ks
}

func trunc(b []byte) []byte {
	if len(b) > 80 {
		return b[:80]
	}
	return b
}

func descFile(f verif.File) string {
	k := f.Key
	if len(k) > 24 {
		k = fmt.Sprintf("%q...(%d bytes)", k[:24], len(k))
	} else {
		k = fmt.Sprintf("%q", k)
	}
	return fmt.Sprintf("{seq=%d tx=%s content=%s key=%s}", uint64(f.Seq), f.TxId, f.ContentId, k)
}

func descFiles(fs []verif.File) string {
	var out []string
	for _, f := range fs {
		out = append(out, descFile(f))
	}
	return strings.Join(out, ",")
}

func c19Bytes(tier string, seed int64, idx int, scratch string) (c rt.CaseResult) {
	rng := seqrun.Rng(seed, "C19b", idx)
	defer func() {
		if r := recover(); r != nil {
			c.Violate("decode-panic", fmt.Sprintf("decoding arbitrary bytes panicked: %v", r), map[string]any{"panic": fmt.Sprint(r)})
		}
	}()
	reps := tierN(tier, 40, 400)
	for l := 0; l <= 100; l++ {
		for rep := 0; rep < reps; rep++ {
			b := make([]byte, l)
			if rep%8 >= 4 {
				// the record is a short view of a larger buffer (a store may hand out slices whose
				// capacity exceeds their length): what lies beyond the length is not part of it
				back := make([]byte, l+8+rng.Intn(120))
				rng.Read(back)
				b = back[:l]
			}
			switch rep % 4 {
			case 0:
				rng.Read(b)
			case 1: // all 0xff
				for i := range b {
					b[i] = 0xff
				}
			case 2: // zeroes
			default:
				rng.Read(b)
				for i := range b {
					if rng.Intn(3) == 0 {
						b[i] = 0
					}
				}
			}
			p := &recProvider{data: map[string][]byte{"file/x": b}}
			c.Evals++
			files, err := verif.NewFileRepo(p).GetAll(context.Background())
			want, ok := specDecode(b)
			switch {
			case !ok && err == nil:
				c.Violate("short-record-accepted", fmt.Sprintf("a %d-byte record (shorter than the 40-byte header) was decoded as %s", l, descFiles(files)), map[string]any{"bytes": hex.EncodeToString(b)})
				return c
			case ok && err != nil:
				c.Violate("valid-record-rejected", fmt.Sprintf("a %d-byte record was rejected: %v", l, err), map[string]any{"bytes": hex.EncodeToString(b)})
				return c
			case ok && (len(files) != 1 || files[0] != want):
				c.Violate("decode-mismatch arbitrary-bytes", fmt.Sprintf("bytes %x decoded as %s, layout says %s", b, descFiles(files), descFile(want)), map[string]any{"bytes": hex.EncodeToString(b)})
				return c
			}
			c.AddDistinct(fmt.Sprintf("len%d/%v", l, ok))
		}
	}
	if idx == 0 {
		c.Sample = map[string]any{"arbitrary_bytes": "lengths 0..100, random / 0xff / zero / sparse", "rule": "len<40 rejected, otherwise decoded as the layout says, never a panic"}
	}
	return c
}

// goldenSpec describes the committed golden database.
type goldenSpec struct {
	Vectors []struct {
		File  map[string]string `json:"file"`
		Seq   uint64            `json:"seq"`
		Bytes string            `json:"bytes"`
	} `json:"vectors"`
	Values map[string]string `json:"values"` // key -> expected content (hex)
}

func goldenDir() string { return filepath.Join(rt.VerifDir(), "golden") }

func c19Golden(tier string, seed int64, idx int, scratch string) rt.CaseResult {
	var c rt.CaseResult
	b, err := os.ReadFile(filepath.Join(goldenDir(), "golden.json"))
	if err != nil {
		c.Inconclusive = append(c.Inconclusive, "golden.json missing: "+err.Error())
		return c
	}
	var g goldenSpec
	json.Unmarshal(b, &g)
	for _, v := range g.Vectors {
		raw, _ := hex.DecodeString(v.Bytes)
		f := verif.File{Key: v.File["key"], TxId: v.File["tx"], ContentId: v.File["content"], Seq: verif.Seq(v.Seq)}
		if kh, ok := v.File["key_hex"]; ok {
			kb, _ := hex.DecodeString(kh)
			f.Key = string(kb)
		}
		c.Evals++
		p := &recProvider{data: map[string][]byte{"file/" + f.ContentId: raw}}
		files, err := verif.NewFileRepo(p).GetAll(context.Background())
		if err != nil || len(files) != 1 || files[0] != f {
			c.Violate("golden-vector-decode", fmt.Sprintf("golden bytes %s decode to %s (%v), recorded %s", v.Bytes, descFiles(files), err, descFile(f)), map[string]any{"vector": v})
			continue
		}
		p = &recProvider{data: map[string][]byte{}}
		if err := verif.NewFileRepo(p).Set(context.Background(), f); err != nil || !bytes.Equal(p.data["file/"+f.ContentId], raw) {
			c.Violate("golden-vector-encode", fmt.Sprintf("record %s encodes to %x, golden bytes are %s", descFile(f), p.data["file/"+f.ContentId], v.Bytes), map[string]any{"vector": v})
			continue
		}
		c.AddDistinct("golden-vector/" + v.Bytes[:16])
	}
	// golden Badger directory: copy (Open modifies it), open, compare
	// The content records hold the root paths as they were configured when the
	// database was written (relative: "dbdir/root0"), so the copy is opened with
	// the same relative configuration from inside the scratch directory.
	os.MkdirAll(scratch, 0o755)
	work := filepath.Join(scratch, "dbdir")
	os.RemoveAll(work)
	if out, err := exec.Command("cp", "-r", filepath.Join(goldenDir(), "dbdir"), work).CombinedOutput(); err != nil {
		c.Inconclusive = append(c.Inconclusive, "copy golden dir: "+string(out))
		return c
	}
	wd, _ := os.Getwd()
	if err := os.Chdir(scratch); err != nil {
		c.Inconclusive = append(c.Inconclusive, "chdir: "+err.Error())
		return c
	}
	defer os.Chdir(wd)
	env, err := dbx.Open(dbx.Options{Mode: dbx.Inline, Dir: "dbdir"})
	if err != nil {
		c.Violate("golden-db-open", "the golden database directory does not open: "+err.Error(), nil)
		return c
	}
	defer env.Close()
	keys, err := env.DB.GetKeys(ctxBg)
	var wantKeys []string
	for k := range g.Values {
		wantKeys = append(wantKeys, k)
	}
	sort.Strings(wantKeys)
	c.Evals++
	if err != nil || strings.Join(keys, "\x01") != strings.Join(wantKeys, "\x01") {
		c.Violate("golden-db-keys", fmt.Sprintf("golden database lists %q (%v), recorded %q", keys, err, wantKeys), nil)
		return c
	}
	for _, k := range wantKeys {
		want, _ := hex.DecodeString(g.Values[k])
		got, err := env.DB.Get(ctxBg, k)
		c.Evals++
		if err != nil || !bytes.Equal(got, want) {
			c.Violate("golden-db-value", fmt.Sprintf("golden database: Get(%q) = %q (%v), recorded %q", k, got, err, want), nil)
			return c
		}
		c.AddDistinct("golden-db/" + k)
	}
	c.Sample = map[string]any{"golden_vectors": len(g.Vectors), "golden_db_keys": wantKeys}
	return c
}

// genGolden writes /verif/golden (run once, by hand, on the pinned tree).
func genGolden(args []string) int {
	dir := goldenDir()
	os.RemoveAll(dir)
	os.MkdirAll(dir, 0o755)
	var g goldenSpec
	g.Values = map[string]string{}
	rng := rand.New(rand.NewSource(20260101))
	for i := 0; i < 24; i++ {
		f := verif.File{Key: keyClasses[i%len(keyClasses)].v(rng), Seq: verif.Seq(seqClasses[i%len(seqClasses)].v(rng)), TxId: randUUID(rng), ContentId: randUUID(rng)}
		if len(f.Key) > 100 {
			f.Key = f.Key[:100]
		}
		p := &recProvider{data: map[string][]byte{}}
		if err := verif.NewFileRepo(p).Set(context.Background(), f); err != nil {
			fmt.Println(err)
			return 1
		}
		g.Vectors = append(g.Vectors, struct {
			File  map[string]string `json:"file"`
			Seq   uint64            `json:"seq"`
			Bytes string            `json:"bytes"`
		}{File: map[string]string{"key_hex": hex.EncodeToString([]byte(f.Key)), "tx": f.TxId, "content": f.ContentId}, Seq: uint64(f.Seq), Bytes: hex.EncodeToString(p.data["file/"+f.ContentId])})
	}
	if err := os.Chdir(dir); err != nil {
		fmt.Println(err)
		return 1
	}
	env, err := dbx.Open(dbx.Options{Mode: dbx.Inline, Dir: "dbdir"})
	if err != nil {
		fmt.Println(err)
		return 1
	}
	// Two versions per key with sequences that order differently when read
	// big-endian: e.g. 255 (ff 00) then 256 (00 01). Many writes make the
	// counter cross 255/256 and 65535/65536.
	n := 0
	for round := 0; round < 90; round++ {
		for _, k := range []string{"alpha", "beta/../x", "юникод"} {
			n++
			v := []byte(fmt.Sprintf("%s-version-%d", k, n))
			if err := env.DB.Set(ctxBg, k, v); err != nil {
				fmt.Println(err)
				return 1
			}
			g.Values[k] = hex.EncodeToString(v)
		}
	}
	env.DB.Set(ctxBg, "deleted", []byte("gone"))
	env.DB.Delete(ctxBg, "deleted")
	tx, _ := env.DB.Begin(ctxBg)
	tx.Set(ctxBg, "uncommitted", []byte("never visible"))
	// no collector pass, no drain: superseded versions stay on disk for Load to sort out
	if err := env.Close(); err != nil {
		fmt.Println(err)
		return 1
	}
	b, _ := json.MarshalIndent(g, "", " ")
	os.WriteFile(filepath.Join(dir, "golden.json"), b, 0o644)
	fmt.Println("golden written to", dir)
	return 0
}
