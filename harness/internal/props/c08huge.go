package props

import (
	"fmt"
	"path/filepath"
	"sync"
	"sync/atomic"
	"time"

	"github.com/glebziz/fs_db/pkg/verif"

	"verifharness/internal/dbx"
	"verifharness/internal/rt"
	"verifharness/internal/seqrun"
)

func init() {
	p := Registry["C08"]
	p.Roles["huge"] = Role{N: func(t string) int { return tierN(t, 3, 16) }, Case: c08Huge}
	p.Rule += " Role huge: one committer writes one fresh token to ALL of 1100-3300 keys per transaction (commits far larger than any batch size inside the store) while 12-28 RepeatableRead/Serializable readers begin at scattered moments and read a sample of 40 keys twice: all keys of a snapshot carry one token, re-reads agree, and the token never goes backwards from one snapshot of a reader to its next."
}

// c08Huge: snapshots against commits of thousands of keys.
func c08Huge(tier string, seed int64, idx int, scratch string) rt.CaseResult {
	var c rt.CaseResult
	rt.SetWatchdogLimit(60 * time.Second)
	rng := seqrun.Rng(seed, "C08h", idx)
	env, err := dbx.Open(dbx.Options{Mode: dbx.Inline, Dir: filepath.Join(scratch, "db")})
	if err != nil {
		c.Violate("open-failed", err.Error(), nil)
		return c
	}
	defer env.Close()
	nkeys := 1100 + rng.Intn(tierN(tier, 600, 2200))
	keys := make([]string, nkeys)
	for i := range keys {
		if i%128 == 0 {
			rt.Beat()
		}
		keys[i] = fmt.Sprintf("h%04d", i)
		if err := env.DB.Set(ctxBg, keys[i], tokVal(keys[i], 0)); err != nil {
			c.Violate("setup-write-failed", err.Error(), nil)
			return c
		}
	}
	rounds := tierN(tier, 3, 6)
	readers := 12 + idx%3*8
	var stop atomic.Bool
	var mu sync.Mutex
	var snapshots atomic.Int64
	var mixedWindow atomic.Int64
	var committing atomic.Bool
	replay := map[string]any{"seed": seed, "case": idx, "keys": nkeys, "readers": readers}
	viol := func(sig, what string) {
		mu.Lock()
		defer mu.Unlock()
		if len(c.Violations) < 3 {
			c.Violate(sig, what, replay)
		}
		stop.Store(true)
	}
	var wg sync.WaitGroup
	for r := 0; r < readers; r++ {
		wg.Add(1)
		go func(r int) {
			defer wg.Done()
			lr := seqrun.Rng(seed, "C08h-r", idx*100+r)
			last := 0
			for !stop.Load() {
				time.Sleep(time.Duration(lr.Intn(6000)) * time.Microsecond)
				during := committing.Load()
				tx, err := env.DB.Begin(ctxBg, verif.IsoLevel(2+lr.Intn(2)))
				if err != nil {
					viol("begin-failed", err.Error())
					return
				}
				sample := make([]string, 40)
				for i := range sample {
					sample[i] = keys[lr.Intn(nkeys)]
				}
				tok := -1
				for pass := 0; pass < 2 && !stop.Load(); pass++ {
					for _, k := range sample {
						b, gerr := tx.Get(ctxBg, k)
						n, ok := -1, false
						if gerr == nil {
							n, ok = parseTok(k, b)
						}
						switch {
						case gerr != nil || !ok:
							viol("snapshot-read-missing huge-commit", fmt.Sprintf("reader %d: Get(%q) in a snapshot returned %v / a value that is no token of the key", r, k, gerr))
						case tok >= 0 && n != tok && pass == 0:
							viol("fractured-snapshot huge-commit", fmt.Sprintf("reader %d: one snapshot sees %q at token %d and another key at token %d (the committer writes one token to all %d keys per transaction)", r, k, n, tok, nkeys))
						case tok >= 0 && n != tok:
							viol("unstable-reread huge-commit", fmt.Sprintf("reader %d: %q re-read at token %d, the snapshot had token %d", r, k, n, tok))
						}
						if stop.Load() {
							break
						}
						tok = n
					}
				}
				tx.Rollback(ctxBg)
				if tok >= 0 && tok < last {
					viol("snapshot-went-backwards huge-commit", fmt.Sprintf("reader %d: a snapshot begun after the previous one had ended sees token %d, the previous one saw %d", r, tok, last))
				}
				if tok > last {
					last = tok
				}
				snapshots.Add(1)
				if during {
					mixedWindow.Add(1)
				}
			}
		}(r)
	}
	for round := 1; round <= rounds && !stop.Load(); round++ {
		rt.Beat()
		tx, err := env.DB.Begin(ctxBg, verif.IsoLevel(1))
		if err != nil {
			viol("begin-failed", err.Error())
			break
		}
		for ki, k := range keys {
			if ki%64 == 0 {
				rt.Beat()
			}
			if err := tx.Set(ctxBg, k, tokVal(k, round)); err != nil {
				viol("write-in-transaction-failed", err.Error())
				break
			}
		}
		committing.Store(true)
		err = tx.Commit(ctxBg)
		committing.Store(false)
		if err != nil {
			viol("commit-failed role=huge", err.Error())
			break
		}
		time.Sleep(3 * time.Millisecond)
	}
	stop.Store(true)
	wg.Wait()
	c.Evals = snapshots.Load()
	c.Count("snapshots_begun_while_a_huge_commit_was_in_progress", mixedWindow.Load())
	if mixedWindow.Load() > 0 {
		c.AddDistinct(fmt.Sprintf("huge/keys=%d/readers=%d", nkeys/500*500, readers))
	}
	if idx == 0 {
		c.Sample = map[string]any{"keys_per_commit": nkeys, "commits": rounds, "readers": readers, "snapshots": snapshots.Load()}
	}
	return c
}
