package props

import (
	"context"
	"fmt"
	"path/filepath"
	"sort"
	"strconv"
	"strings"
	"sync"
	"sync/atomic"
	"time"
	"verifharness/internal/refmodel"

	"github.com/glebziz/fs_db/pkg/verif"

	"verifharness/internal/conc"
	"verifharness/internal/dbx"
	"verifharness/internal/rt"
	"verifharness/internal/seqrun"
)

func init() {
	register(&Prop{
		ID: "C08", Level: "exploration",
		Rule:        "groups of 2-4 keys; one committer per group whose transactions write one fresh token to ALL keys of the group; autocommit writers on solo keys with a monotone counter; RepeatableRead/Serializable reader transactions that read every key and GetKeys two or three times; a collector actor calling DeleteOld continuously, the scheduled collector every few ms, short transactions beginning and ending to move the horizon; seeded perturbation at hook points. Oracle per reader: all keys of a group carry the same token (atomicity), every re-read and every GetKeys repeats (stability), the token lies between the last commit acknowledged before Begin was called and the last commit invoked before Begin returned (freshness), no key ever missing. Plus steered windows: reader Begin between two sequence assignments of one commit; Begin sequence drawn < collector horizon < Begin registered. evaluations = reader transactions judged; distinct_nontrivial = reader transactions that overlapped at least one commit of a group they read + distinct (window, outcome) pairs",
		Assumptions: []string{"monotonic clock of one process", "single writer per group/solo key makes token order total"},
		Roles: map[string]Role{
			"stress": {N: func(t string) int { return tierN(t, 16, 960) }, Case: c08Stress},
			"window": {N: func(t string) int { return tierN(t, 32, 2000) }, Case: c08Window},
		},
	})
}

type c08Commit struct {
	N         int
	Call, Ret int64
}

type c08Read struct {
	Key   string `json:"key"`
	Pass  int    `json:"pass"`
	Class string `json:"class"`
	Tok   int    `json:"tok"`
	Raw   string `json:"raw,omitempty"`
}

type c08Reader struct {
	ID        int        `json:"id"`
	G         int64      `json:"g"`
	Level     int        `json:"level"`
	BeginCall int64      `json:"begin_call"`
	BeginRet  int64      `json:"begin_ret"`
	End       int64      `json:"end"`
	Reads     []c08Read  `json:"reads"`
	KeyLists  [][]string `json:"key_lists"`
}

func tokVal(key string, n int) []byte { return seqrun.Content(fmt.Sprintf("%s#%d", key, n), 40) }

func parseTok(key string, b []byte) (int, bool) {
	s := string(b)
	pre := key + "#"
	if !strings.HasPrefix(s, pre) {
		return 0, false
	}
	rest := s[len(pre):]
	i := strings.IndexByte(rest, ':')
	if i < 0 {
		return 0, false
	}
	n, err := strconv.Atoi(rest[:i])
	if err != nil || string(tokVal(key, n)) != s {
		return 0, false
	}
	return n, true
}

// c08KnownWindow tells whether the reader's snapshot raced with a collector
// horizon in one of the two ways of the recorded finding: (a) a horizon newer
// than the reader's begin sequence was computed while the reader's Begin call
// was in progress (sequence drawn, not yet registered); (b) another Begin with
// a later sequence overlapped the reader's Begin, registered first, and a
// horizon equal to that later sequence was used while the reader was open.
func c08KnownWindow(r *c08Reader, evs []conc.Event) string {
	var sb uint64
	var enterT, exitT int64 = -1, -1
	for _, e := range evs {
		if e.G == r.G && e.T >= r.BeginCall && e.T <= r.BeginRet {
			switch e.Point {
			case "txrepo.store.enter":
				sb, _ = strconv.ParseUint(e.ID, 10, 64)
				enterT = e.T
			case "txrepo.store.exit":
				exitT = e.T
			}
		}
	}
	if enterT < 0 || exitT < 0 {
		return ""
	}
	// (a) a collector pass [enter, horizon] that overlaps the reader's Begin
	// (sequence drawn, not yet registered) and uses a horizon newer than the
	// reader's sequence: the pass consulted the registry before the reader was in it.
	passEnter := map[int64]int64{}
	for _, e := range evs {
		switch e.Point {
		case "cleaner.deleteold.enter":
			passEnter[e.G] = e.T
		case "cleaner.deleteold.horizon":
			en, ok := passEnter[e.G]
			if !ok {
				en = e.T
			}
			if en <= exitT && e.T >= r.BeginCall {
				if h, _ := strconv.ParseUint(e.ID, 10, 64); h > sb {
					return "a:horizon-computed-during-begin"
				}
			}
		}
	}
	// (b)
	type reg struct {
		seq         uint64
		enter, exit int64
	}
	open := map[int64]*reg{}
	var others []*reg
	for _, e := range evs {
		switch e.Point {
		case "txrepo.store.enter":
			s, _ := strconv.ParseUint(e.ID, 10, 64)
			open[e.G] = &reg{seq: s, enter: e.T}
		case "txrepo.store.exit":
			if q := open[e.G]; q != nil {
				q.exit = e.T
				others = append(others, q)
				delete(open, e.G)
			}
		}
	}
	for _, q := range open { // registrations whose exit event is outside the slice
		q.exit = 1 << 62
		others = append(others, q)
	}
	for _, q := range others {
		// q drew its sequence after the reader (q.seq > sb) but entered the registry
		// code before the reader had left it: q may have been inserted first, and the
		// registry reports the first inserted transaction as the oldest
		if q.seq > sb && q.enter < exitT && q.exit > r.BeginCall {
			for _, e := range evs {
				if e.Point == "cleaner.deleteold.horizon" && e.T >= r.BeginCall && e.T <= r.End {
					if h, _ := strconv.ParseUint(e.ID, 10, 64); h == q.seq {
						return "b:later-begin-registered-first"
					}
				}
			}
		}
	}
	return ""
}

// judgeReader applies the snapshot oracle to one reader transaction.
func judgeReader(c *rt.CaseResult, r *c08Reader, groups map[string][]string, commits map[string][]c08Commit, evs []conc.Event, replay map[string]any) bool {
	c.Evals++
	viol := func(class, what string) bool {
		sig := class
		if w := c08KnownWindow(r, evs); w != "" {
			sig = "begin-vs-collector-horizon " + w[:1] + " " + class
			replay["known_window"] = w
		}
		rp := map[string]any{"reader": r, "trace_slice": traceSlice(evs, r.BeginCall-2_000_000, r.End)}
		for k, v := range replay {
			rp[k] = v
		}
		c.Violate(sig, what, rp)
		return false
	}
	first := map[string]c08Read{}
	for i, rd := range r.Reads {
		if rd.Class == string(refmodel.NotFound) && strings.HasPrefix(rd.Key, "laz") {
			// a key that was deleted before the run and is re-created during it: missing = token 0
			r.Reads[i].Class, r.Reads[i].Tok = "ok", 0
			rd = r.Reads[i]
		}
		if rd.Class != "ok" {
			return viol("snapshot-read-missing", fmt.Sprintf("reader %d (level %d): Get(%q) in pass %d returned %s although the key always has a value", r.ID, r.Level, rd.Key, rd.Pass, rd.Class))
		}
		if rd.Tok < 0 {
			return viol("snapshot-read-garbage", fmt.Sprintf("reader %d: Get(%q) returned a value that is no token of that key: %s", r.ID, rd.Key, rd.Raw))
		}
		if f, ok := first[rd.Key]; ok {
			if f.Tok != rd.Tok {
				return viol("unstable-reread", fmt.Sprintf("reader %d (level %d): %q read token %d in pass %d and token %d in pass %d", r.ID, r.Level, rd.Key, f.Tok, f.Pass, rd.Tok, rd.Pass))
			}
		} else {
			first[rd.Key] = rd
		}
	}
	for i := 1; i < len(r.KeyLists); i++ {
		if strings.Join(r.KeyLists[i], "\x00") != strings.Join(r.KeyLists[0], "\x00") {
			return viol("unstable-getkeys", fmt.Sprintf("reader %d: GetKeys returned %q then %q", r.ID, r.KeyLists[0], r.KeyLists[i]))
		}
	}
	overl := false
	for g, keys := range groups {
		tok := -1
		for _, k := range keys {
			f, ok := first[k]
			if !ok {
				continue
			}
			if tok >= 0 && f.Tok != tok {
				return viol("fractured-snapshot", fmt.Sprintf("reader %d (level %d) sees group %s partly at token %d and partly at token %d (key %q)", r.ID, r.Level, g, tok, f.Tok, k))
			}
			tok = f.Tok
		}
		if tok < 0 {
			continue
		}
		lower, upper := 0, 0
		for _, cm := range commits[g] {
			if cm.Ret != 0 && cm.Ret < r.BeginCall && cm.N > lower {
				lower = cm.N
			}
			if cm.Call < r.BeginRet && cm.N > upper {
				upper = cm.N
			}
			if cm.Call < r.End && (cm.Ret == 0 || cm.Ret > r.BeginCall) {
				overl = true
			}
		}
		if tok < lower || tok > upper {
			return viol("stale-or-future-snapshot", fmt.Sprintf("reader %d (level %d) sees group %s at token %d; commits acknowledged before its Begin was called reach %d, commits invoked before its Begin returned reach %d", r.ID, r.Level, g, tok, lower, upper))
		}
	}
	if overl {
		c.AddDistinct(fmt.Sprintf("reader-%d-%d", r.ID, r.BeginCall))
	}
	return true
}

func c08Stress(tier string, seed int64, idx int, scratch string) rt.CaseResult {
	var c rt.CaseResult
	rt.SetWatchdogLimit(25 * time.Second)
	rng := seqrun.Rng(seed, "C08", idx)
	env, err := dbx.Open(dbx.Options{Mode: dbx.Inline, Dir: filepath.Join(scratch, "db"), GCPeriod: time.Duration(2+rng.Intn(6)) * time.Millisecond, NumWorkers: 2})
	if err != nil {
		c.Violate("open-failed", err.Error(), nil)
		return c
	}
	defer env.Close()
	tr := conc.NewTracer(true)
	tr.Perturb(15+rng.Intn(40), 40+rng.Intn(300), uint64(seed)*131+uint64(idx))
	groups := map[string][]string{}
	var allKeys []string
	ng := 1 + rng.Intn(2)
	wide := idx%2 == 1 // one commit writes 40 keys: a long run of sequence draws / record writes per commit
	if wide {
		ng = 1
	}
	for g := 0; g < ng; g++ {
		name := fmt.Sprintf("g%d", g)
		nk := 2 + rng.Intn(3)
		if wide {
			nk = 40
		}
		for k := 0; k < nk; k++ {
			key := fmt.Sprintf("%s-k%02d", name, k)
			groups[name] = append(groups[name], key)
			allKeys = append(allKeys, key)
		}
	}
	ns := 1 + rng.Intn(2)
	if wide {
		ns = 0
	}
	for s := 0; s < ns; s++ {
		name := fmt.Sprintf("solo%d", s)
		groups[name] = []string{name}
		allKeys = append(allKeys, name)
	}
	sort.Strings(allKeys)
	for _, k := range allKeys {
		env.DB.Set(ctxBg, k, tokVal(k, 0))
	}
	// keys that exist only as a tombstone when the run starts and are re-created once during it
	var lazarus []string
	if !wide {
		for i := 0; i < 2; i++ {
			k := fmt.Sprintf("laz%d", i)
			env.DB.Set(ctxBg, k, []byte("before"))
			env.DB.Delete(ctxBg, k)
			lazarus = append(lazarus, k)
			groups[k] = []string{k}
		}
	}
	readKeys := append(append([]string(nil), allKeys...), lazarus...)
	if wide {
		g := groups["g0"]
		readKeys = []string{g[0], g[len(g)-1]}
	}
	tr.Install()
	defer conc.Uninstall()
	var stop atomic.Bool
	var wg sync.WaitGroup
	var mu sync.Mutex
	commits := map[string][]c08Commit{}
	// writers
	for _, lk := range lazarus {
		wg.Add(1)
		go func(k string, delay time.Duration) {
			defer wg.Done()
			time.Sleep(delay)
			cm := c08Commit{N: 1, Call: tr.Now()}
			if env.DB.Set(ctxBg, k, tokVal(k, 1)) == nil {
				cm.Ret = tr.Now()
			}
			mu.Lock()
			commits[k] = append(commits[k], cm)
			mu.Unlock()
		}(lk, time.Duration(2+rng.Intn(25))*time.Millisecond)
	}
	for g, keys := range groups {
		if strings.HasPrefix(g, "laz") {
			continue
		}
		wg.Add(1)
		go func(g string, keys []string) {
			defer wg.Done()
			solo := strings.HasPrefix(g, "solo")
			for n := 1; !stop.Load(); n++ {
				cm := c08Commit{N: n}
				if solo {
					cm.Call = tr.Now()
					err := env.DB.Set(ctxBg, keys[0], tokVal(keys[0], n))
					cm.Ret = tr.Now()
					if err != nil {
						cm.Ret = 0
					}
				} else {
					tx, err := env.DB.Begin(ctxBg, verif.IsoLevel(n%2)) // RU / RC committers never fail
					if err != nil {
						return
					}
					for _, k := range keys {
						tx.Set(ctxBg, k, tokVal(k, n))
					}
					cm.Call = tr.Now()
					err = tx.Commit(ctxBg)
					cm.Ret = tr.Now()
					if err != nil {
						cm.Ret = 0
					}
				}
				mu.Lock()
				commits[g] = append(commits[g], cm)
				mu.Unlock()
				time.Sleep(time.Duration(50+n%7*40) * time.Microsecond)
			}
		}(g, keys)
	}
	// collector actor and horizon mover
	wg.Add(2)
	go func() {
		defer wg.Done()
		for !stop.Load() {
			env.Collect()
			time.Sleep(100 * time.Microsecond)
		}
	}()
	go func() {
		defer wg.Done()
		for i := 0; !stop.Load(); i++ {
			tx, err := env.DB.Begin(ctxBg, verif.IsoLevel(i%4))
			if err == nil {
				time.Sleep(time.Duration(i%5*100) * time.Microsecond)
				tx.Rollback(ctxBg)
			}
		}
	}()
	// readers
	nReaders := 3
	perReader := tierN(tier, 60, 200)
	if wide {
		nReaders, perReader = 10, tierN(tier, 3000, 6000)
	}
	readers := make([][]*c08Reader, nReaders)
	var rwg sync.WaitGroup
	for ri := 0; ri < nReaders; ri++ {
		rwg.Add(1)
		go func(ri int) {
			defer rwg.Done()
			gid := conc.Goid()
			lr := seqrun.Rng(seed, "C08r", idx*10+ri)
			for j := 0; j < perReader; j++ {
				r := &c08Reader{ID: ri*1000 + j, G: gid, Level: 2 + lr.Intn(2)}
				r.BeginCall = tr.Now()
				tx, err := env.DB.Begin(ctxBg, verif.IsoLevel(r.Level))
				r.BeginRet = tr.Now()
				if err != nil {
					continue
				}
				passes := 2 + lr.Intn(2)
				if wide {
					passes = 2
				}
				for p := 0; p < passes; p++ {
					order := lr.Perm(len(readKeys))
					for _, ki := range order {
						k := readKeys[ki]
						b, err := tx.Get(ctxBg, k)
						rd := c08Read{Key: k, Pass: p, Class: string(seqrun.Class(err)), Tok: -1}
						if err == nil {
							if n, ok := parseTok(k, b); ok {
								rd.Tok = n
							} else {
								rd.Raw = seqrun.Describe(b)
							}
						}
						r.Reads = append(r.Reads, rd)
					}
					if !wide { // wide mode: as many Begins per commit as possible
						ks, err := tx.GetKeys(ctxBg)
						if err == nil {
							r.KeyLists = append(r.KeyLists, ks)
						}
						if lr.Intn(2) == 0 {
							time.Sleep(time.Duration(lr.Intn(400)) * time.Microsecond)
						}
					}
				}
				r.End = tr.Now()
				if lr.Intn(2) == 0 {
					tx.Rollback(ctxBg)
				} else {
					tx.Commit(ctxBg)
				}
				readers[ri] = append(readers[ri], r)
				rt.Beat()
			}
		}(ri)
	}
	rwg.Wait()
	stop.Store(true)
	wg.Wait()
	conc.Uninstall()
	evs := tr.Events()
	var ncommits int64
	for _, cs := range commits {
		ncommits += int64(len(cs))
	}
	c.Count("commits_by_writers", ncommits)
	c.Count("collector_horizons", tr.Count("cleaner.deleteold.horizon"))
	c.Count("collector_removed_versions", tr.Count("cleaner.deletefile.done"))
	for _, rs := range readers {
		for _, r := range rs {
			if !judgeReader(&c, r, groups, commits, evs, map[string]any{"seed": seed, "case": idx, "groups": groups}) && len(c.Violations) >= 3 {
				return c
			}
		}
	}
	if idx == 0 && len(readers[0]) > 0 {
		r := readers[0][0]
		c.Sample = map[string]any{"reader": map[string]any{"level": r.Level, "begin": []int64{r.BeginCall, r.BeginRet}, "first_reads": r.Reads[:min(6, len(r.Reads))]}, "groups": groups}
	}
	return c
}

func c08Window(tier string, seed int64, idx int, scratch string) rt.CaseResult {
	var c rt.CaseResult
	env, err := dbx.Open(dbx.Options{Mode: dbx.Inline, Dir: filepath.Join(scratch, "db")})
	if err != nil {
		c.Violate("open-failed", err.Error(), nil)
		return c
	}
	defer env.Close()
	tr := conc.NewTracer(true)
	tr.Install()
	defer conc.Uninstall()
	window := []string{"commit.seq(1)<reader.begin<commit.seq(2)", "begin.seq-drawn<collector.horizon<begin.registered", "collector.horizon-chosen<reader.begin+read<overwrite<collector.walks-the-lists"}[idx%3]
	keys := []string{"g0-k0", "g0-k1", "g0-k2"}
	groups := map[string][]string{"g0": keys}
	for _, k := range keys {
		env.DB.Set(ctxBg, k, tokVal(k, 0))
	}
	commits := map[string][]c08Commit{}
	r := &c08Reader{ID: idx, Level: 2 + idx/3%2}
	var gate *conc.Gate
	readAll := func(tx interface {
		Get(ctx context.Context, key string) ([]byte, error)
		GetKeys(ctx context.Context) ([]string, error)
	}) {
		for p := len(r.KeyLists); p < 2; p++ {
			for _, k := range keys {
				b, err := tx.Get(ctxBg, k)
				rd := c08Read{Key: k, Pass: p, Class: string(seqrun.Class(err)), Tok: -1}
				if err == nil {
					if n, ok := parseTok(k, b); ok {
						rd.Tok = n
					}
				}
				r.Reads = append(r.Reads, rd)
			}
			ks, _ := tx.GetKeys(ctxBg)
			r.KeyLists = append(r.KeyLists, ks)
		}
	}
	switch idx % 3 {
	case 2:
		// a collector pass has chosen its horizon (no transaction is open) and is held before it
		// walks the version lists; a snapshot begins and reads; the keys are overwritten; the pass
		// goes on: the snapshot must still read what it read before
		done := make(chan struct{})
		go func() {
			defer close(done)
			gate = tr.AddGate(&conc.Gate{WaitPoint: "cleaner.deleteold.horizon", WaitG: conc.Goid(), SigPoint: "verif.never", Timeout: 3 * time.Second})
			env.Collect()
		}()
		for gate == nil {
			time.Sleep(100 * time.Microsecond)
		}
		gate.WaitReached(time.Second)
		r.G = conc.Goid()
		r.BeginCall = tr.Now()
		tx, _ := env.DB.Begin(ctxBg, verif.IsoLevel(r.Level))
		r.BeginRet = tr.Now()
		// first pass of reads only
		for _, k := range keys {
			b, err := tx.Get(ctxBg, k)
			rd := c08Read{Key: k, Pass: 0, Class: string(seqrun.Class(err)), Tok: -1}
			if err == nil {
				if n, ok := parseTok(k, b); ok {
					rd.Tok = n
				}
			}
			r.Reads = append(r.Reads, rd)
		}
		ks, _ := tx.GetKeys(ctxBg)
		r.KeyLists = append(r.KeyLists, ks)
		cm := c08Commit{N: 1, Call: tr.Now()}
		if idx%2 == 0 {
			w, _ := env.DB.Begin(ctxBg, verif.IsoLevel(1))
			for _, k := range keys {
				w.Set(ctxBg, k, tokVal(k, 1))
			}
			if w.Commit(ctxBg) == nil {
				cm.Ret = tr.Now()
			}
			commits["g0"] = []c08Commit{cm}
		} else {
			// autocommit overwrites: the keys are no longer one group
			for _, k := range keys {
				env.DB.Set(ctxBg, k, tokVal(k, 1))
			}
			groups = map[string][]string{}
		}
		gate.Release()
		<-done
		env.Drain()
		readAll(tx)
		r.End = tr.Now()
		tx.Rollback(ctxBg)
	case 0:
		// committer parks after its first sequence assignment until the reader has registered
		done := make(chan struct{})
		var cm c08Commit
		go func() {
			defer close(done)
			gate = tr.AddGate(&conc.Gate{WaitPoint: "core.updatetx.seq", WaitG: conc.Goid(), SigPoint: "txrepo.store.exit", NotSigG: conc.Goid(), Timeout: time.Second})
			tx, _ := env.DB.Begin(ctxBg, verif.IsoLevel(1))
			for _, k := range keys {
				tx.Set(ctxBg, k, tokVal(k, 1))
			}
			cm = c08Commit{N: 1, Call: tr.Now()}
			if tx.Commit(ctxBg) == nil {
				cm.Ret = tr.Now()
			}
		}()
		for gate == nil {
			time.Sleep(100 * time.Microsecond)
		}
		gate.WaitReached(time.Second)
		r.G = conc.Goid()
		r.BeginCall = tr.Now()
		tx, _ := env.DB.Begin(ctxBg, verif.IsoLevel(r.Level))
		r.BeginRet = tr.Now()
		<-done
		commits["g0"] = []c08Commit{cm}
		readAll(tx)
		r.End = tr.Now()
		tx.Rollback(ctxBg)
	default:
		// reader parks between drawing its sequence and registering; meanwhile overwrite + collector pass
		done := make(chan struct{})
		go func() {
			defer close(done)
			r.G = conc.Goid()
			gate = tr.AddGate(&conc.Gate{WaitPoint: "txrepo.store.enter", WaitG: r.G, SigPoint: "cleaner.deleteold.horizon", Timeout: time.Second})
			r.BeginCall = tr.Now()
			tx, _ := env.DB.Begin(ctxBg, verif.IsoLevel(r.Level))
			r.BeginRet = tr.Now()
			readAll(tx)
			r.End = tr.Now()
			tx.Rollback(ctxBg)
		}()
		for gate == nil {
			time.Sleep(100 * time.Microsecond)
		}
		gate.WaitReached(time.Second)
		cm := c08Commit{N: 1, Call: tr.Now()}
		tx, _ := env.DB.Begin(ctxBg, verif.IsoLevel(1))
		for _, k := range keys {
			tx.Set(ctxBg, k, tokVal(k, 1))
		}
		if tx.Commit(ctxBg) == nil {
			cm.Ret = tr.Now()
		}
		commits["g0"] = []c08Commit{cm}
		env.Collect()
		<-done
	}
	out := gate.Outcome()
	c.AddDistinct("window:" + window + "/" + out)
	c.Observe("window orders and gate outcomes", window+" -> "+out)
	c.Count("window_attempts", 1)
	judgeReader(&c, r, groups, commits, tr.Events(), map[string]any{"seed": seed, "case": idx, "window": window, "gate": out, "trace": tr.Events()})
	if idx < 2 {
		c.Sample = map[string]any{"window": window, "gate_outcome": out, "reads": r.Reads}
	}
	return c
}

func traceSlice(evs []conc.Event, from, to int64) []conc.Event {
	var out []conc.Event
	for _, e := range evs {
		if e.T < from || e.T > to {
			continue
		}
		if strings.HasPrefix(e.Point, "txrepo.") || strings.HasPrefix(e.Point, "cleaner.deleteold") || strings.HasPrefix(e.Point, "tx.") {
			out = append(out, e)
		}
		if len(out) > 400 {
			break
		}
	}
	return out
}
