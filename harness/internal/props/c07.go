package props

import (
	"fmt"
	"path/filepath"
	"sync"
	"sync/atomic"
	"time"

	"github.com/glebziz/fs_db"
	"github.com/glebziz/fs_db/pkg/verif"

	"verifharness/internal/conc"
	"verifharness/internal/dbx"
	"verifharness/internal/refmodel"
	"verifharness/internal/rt"
	"verifharness/internal/seqrun"
)

func init() {
	register(&Prop{
		ID: "C07", Level: "exploration",
		Rule:        "rounds of 2-3 RepeatableRead/Serializable transactions that all begin, write intersecting (and some disjoint) key sets, optionally race with one autocommit writer, and then call Commit concurrently from their own goroutines, on the real inline database with seeded perturbation at the hook points; intervals are recorded at the client boundary. Oracle (interval based, sound): two successful commits with intersecting write sets whose transactions were both begun before either Commit was called = lost update; a successful commit although an autocommit write to one of its keys lies entirely between its Begin and its Commit; a failed commit with no other write to its keys in its lifetime; all conflicting commits failing; final values must be those of a successful committer; values of failed transactions never readable. Plus the window {A.checked, A.published, B.checked, B.published} steered through hook gates. evaluations = commit calls judged; distinct_nontrivial = rounds in which the Commit intervals of conflicting transactions truly overlapped + distinct (window order, outcome) pairs",
		Assumptions: []string{"monotonic clock of one process", "hook gates only delay goroutines (bounded waits)"},
		Roles: map[string]Role{
			"rounds": {N: func(t string) int { return tierN(t, 16, 1600) }, Case: c07Rounds},
			"window": {N: func(t string) int { return tierN(t, 24, 2400) }, Case: c07Window},
			"fresh":  {N: func(t string) int { return tierN(t, 16, 400) }, Case: c07Fresh},
		},
	})
}

type c07Tx struct {
	ID         int      `json:"id"`
	Level      int      `json:"level"`
	Keys       []string `json:"keys"`
	Val        string   `json:"val"`
	BeginCall  int64    `json:"begin_call"`
	BeginRet   int64    `json:"begin_ret"`
	CommitCall int64    `json:"commit_call"`
	CommitRet  int64    `json:"commit_ret"`
	Class      string   `json:"class"`
	Err        string   `json:"err,omitempty"`
	tx         fs_db.Tx
}

type c07Round struct {
	Round   int               `json:"round"`
	Keys    []string          `json:"keys"`
	Txs     []*c07Tx          `json:"txs"`
	Writer  *c07W             `json:"autocommit_writer,omitempty"`
	Final   map[string]string `json:"final"`
	Initial string            `json:"initial"`
}

type c07W struct {
	Key       string `json:"key"`
	Val       string `json:"val"`
	Call, Ret int64
}

func intersects(a, b []string) bool {
	for _, x := range a {
		for _, y := range b {
			if x == y {
				return true
			}
		}
	}
	return false
}

// judgeRound applies the interval oracle.
func judgeRound(c *rt.CaseResult, r *c07Round, extra map[string]any) {
	replay := map[string]any{"round": r}
	for k, v := range extra {
		replay[k] = v
	}
	succ := func(t *c07Tx) bool { return t.Class == "ok" }
	for _, t := range r.Txs {
		c.Evals++
		if t.Class != "ok" && t.Class != string(refmodel.TxSerial) {
			c.Violate("commit-unexpected-error class="+t.Class, fmt.Sprintf("Commit returned %s: %s", t.Class, t.Err), replay)
			return
		}
	}
	overlapped := false
	for i, a := range r.Txs {
		for _, b := range r.Txs[i+1:] {
			if !intersects(a.Keys, b.Keys) {
				continue
			}
			if a.CommitCall < b.CommitRet && b.CommitCall < a.CommitRet {
				overlapped = true
			}
			if succ(a) && succ(b) && a.BeginRet < b.CommitCall && b.BeginRet < a.CommitCall {
				c.Violate("lost-update both-committed", fmt.Sprintf("transactions %d and %d both wrote %v/%v, were both begun before either Commit was called, and both Commit calls succeeded", a.ID, b.ID, a.Keys, b.Keys), replay)
				return
			}
		}
	}
	if overlapped {
		c.AddDistinct(fmt.Sprintf("overlap-round-%s", r.Initial))
		c.Count("rounds_with_overlapping_conflicting_commits", 1)
	}
	// a failed commit needs another write to one of its keys during its lifetime
	for _, t := range r.Txs {
		if succ(t) {
			if w := r.Writer; w != nil && intersects(t.Keys, []string{w.Key}) && t.BeginRet < w.Call && w.Ret < t.CommitCall {
				c.Violate("lost-update autocommit-overwritten", fmt.Sprintf("transaction %d committed although an autocommit write to %q lies entirely between its Begin and its Commit", t.ID, w.Key), replay)
				return
			}
			continue
		}
		cause := false
		for _, o := range r.Txs {
			if o != t && intersects(o.Keys, t.Keys) && succ(o) {
				cause = true
			}
		}
		if w := r.Writer; w != nil && intersects(t.Keys, []string{w.Key}) {
			cause = true
		}
		if !cause {
			c.Violate("spurious-serialization-failure", fmt.Sprintf("transaction %d failed with ErrTxSerialization although no other write to %v was committed in its lifetime", t.ID, t.Keys), replay)
			return
		}
	}
	// final values: per key, the value of a successful committer that wrote it, the writer's or the initial one
	for k, v := range r.Final {
		ok := v == r.Initial
		var winners []string
		for _, t := range r.Txs {
			if intersects(t.Keys, []string{k}) {
				if succ(t) {
					winners = append(winners, t.Val)
					if v == t.Val {
						ok = true
					}
				} else if v == t.Val {
					c.Violate("failed-commit-visible", fmt.Sprintf("key %q finally reads the value of transaction %d whose Commit failed", k, t.ID), replay)
					return
				}
			}
		}
		if w := r.Writer; w != nil && w.Key == k && v == w.Val {
			ok = true
		}
		if len(winners) > 0 && v == r.Initial {
			// allowed only if the autocommit writer... no: a committed value cannot revert to the initial one
			ok = false
		}
		if !ok {
			c.Violate("final-value-wrong", fmt.Sprintf("key %q finally reads %s; successful committers wrote %v", k, seqrun.Describe([]byte(v)), winners), replay)
			return
		}
	}
}

func c07Rounds(tier string, seed int64, idx int, scratch string) rt.CaseResult {
	var c rt.CaseResult
	rt.SetWatchdogLimit(25 * time.Second)
	rng := seqrun.Rng(seed, "C07", idx)
	env, err := dbx.Open(dbx.Options{Mode: dbx.Inline, Dir: filepath.Join(scratch, "db"), GCPeriod: 20 * time.Millisecond})
	if err != nil {
		c.Violate("open-failed", err.Error(), nil)
		return c
	}
	defer env.Close()
	tr := conc.NewTracer(false)
	if idx%3 != 0 {
		tr.Perturb(20+rng.Intn(50), 30+rng.Intn(200), uint64(seed)*31+uint64(idx))
	}
	tr.Install()
	defer conc.Uninstall()
	rounds := tierN(tier, 40, 50)
	for rd := 0; rd < rounds && len(c.Violations) == 0; rd++ {
		rt.Beat()
		pre := fmt.Sprintf("c%d-r%d-", idx, rd)
		keys := []string{pre + "a", pre + "b", pre + "c"}
		r := &c07Round{Round: rd, Keys: keys, Initial: string(seqrun.Content(pre+"init", 16)), Final: map[string]string{}}
		for _, k := range keys {
			env.DB.Set(ctxBg, k, []byte(r.Initial))
		}
		n := 2 + rng.Intn(2)
		for i := 0; i < n; i++ {
			t := &c07Tx{ID: i, Level: 2 + rng.Intn(2), Val: string(seqrun.Content(fmt.Sprintf("%st%d", pre, i), 16))}
			// key sets: everyone writes a; some write b; the last one sometimes only c (disjoint)
			switch {
			case i == n-1 && n == 3 && rng.Intn(2) == 0:
				t.Keys = []string{keys[2]}
			case rng.Intn(2) == 0:
				t.Keys = []string{keys[0], keys[1]}
			default:
				t.Keys = []string{keys[0]}
			}
			r.Txs = append(r.Txs, t)
		}
		// in some rounds an autocommit writer of the contended key runs concurrently with the whole
		// round (started before the Begins, free to finish whenever it does)
		var wwg sync.WaitGroup
		if rng.Intn(3) == 0 {
			w := &c07W{Key: keys[0], Val: string(seqrun.Content(pre+"cw", 16))}
			r.Writer = w
			w.Call = tr.Now()
			wwg.Add(1)
			go func() {
				defer wwg.Done()
				env.DB.Set(ctxBg, w.Key, []byte(w.Val))
				w.Ret = tr.Now()
			}()
		}
		// begin (concurrently half of the time) and write
		var wg sync.WaitGroup
		for _, t := range r.Txs {
			wg.Add(1)
			f := func(t *c07Tx) {
				defer wg.Done()
				t.BeginCall = tr.Now()
				tx, err := env.DB.Begin(ctxBg, verif.IsoLevel(t.Level))
				t.BeginRet = tr.Now()
				if err != nil {
					t.Class, t.Err = "begin-failed", err.Error()
					return
				}
				t.tx = tx
				for _, k := range t.Keys {
					tx.Set(ctxBg, k, []byte(t.Val))
				}
			}
			if rd%2 == 0 {
				go f(t)
			} else {
				f(t)
			}
		}
		wg.Wait()
		if r.Writer == nil && rng.Intn(3) == 0 {
			w := &c07W{Key: keys[0], Val: string(seqrun.Content(pre+"w", 16))}
			w.Call = tr.Now()
			env.DB.Set(ctxBg, w.Key, []byte(w.Val))
			w.Ret = tr.Now()
			r.Writer = w
		}
		start := make(chan struct{})
		for _, t := range r.Txs {
			if t.tx == nil {
				continue
			}
			wg.Add(1)
			go func(t *c07Tx) {
				defer wg.Done()
				<-start
				t.CommitCall = tr.Now()
				err := t.tx.Commit(ctxBg)
				t.CommitRet = tr.Now()
				t.Class = string(seqrun.Class(err))
				if err != nil {
					t.Err = err.Error()
				}
			}(t)
		}
		close(start)
		wg.Wait()
		wwg.Wait()
		for _, k := range keys {
			b, err := env.DB.Get(ctxBg, k)
			if err != nil {
				c.Violate("final-read-failed", fmt.Sprintf("Get(%q) after the round: %v", k, err), map[string]any{"round": r})
				return c
			}
			r.Final[k] = string(b)
		}
		judgeRound(&c, r, map[string]any{"seed": seed, "case": idx})
		c.Count("rounds", 1)
		if idx == 0 && rd == 0 {
			c.Sample = map[string]any{"round": r}
		}
	}
	return c
}

// c07Window steers two conflicting commits through the check/publish window.
func c07Window(tier string, seed int64, idx int, scratch string) rt.CaseResult {
	var c rt.CaseResult
	env, err := dbx.Open(dbx.Options{Mode: dbx.Inline, Dir: filepath.Join(scratch, "db")})
	if err != nil {
		c.Violate("open-failed", err.Error(), nil)
		return c
	}
	defer env.Close()
	tr := conc.NewTracer(true)
	tr.Install()
	defer conc.Uninstall()
	if idx%4 == 3 {
		return c07WriterWindow(seed, idx, env, tr)
	}
	orders := []string{"A.checked<B.checked<A.published", "A.checked<B.published<A.published", "A.checked<A.published<B.checked"}
	order := orders[idx%3]
	pre := fmt.Sprintf("w%d-", idx)
	key := pre + "k"
	r := &c07Round{Round: idx, Keys: []string{key}, Initial: string(seqrun.Content(pre+"init", 16)), Final: map[string]string{}}
	env.DB.Set(ctxBg, key, []byte(r.Initial))
	for i := 0; i < 2; i++ {
		t := &c07Tx{ID: i, Level: 2 + (idx/3+i)%2, Keys: []string{key}, Val: string(seqrun.Content(fmt.Sprintf("%st%d", pre, i), 16))}
		t.BeginCall = tr.Now()
		t.tx, _ = env.DB.Begin(ctxBg, verif.IsoLevel(t.Level))
		t.BeginRet = tr.Now()
		t.tx.Set(ctxBg, key, []byte(t.Val))
		r.Txs = append(r.Txs, t)
	}
	var gate *conc.Gate
	var wg sync.WaitGroup
	gids := make([]int64, 2)
	ready := make(chan struct{}, 2)
	start := make(chan struct{})
	for i, t := range r.Txs {
		wg.Add(1)
		go func(i int, t *c07Tx) {
			defer wg.Done()
			gids[i] = conc.Goid()
			ready <- struct{}{}
			<-start
			if i == 1 && order != orders[2] {
				time.Sleep(2 * time.Millisecond) // let A reach its check first
			}
			if i == 1 && order == orders[2] {
				time.Sleep(20 * time.Millisecond)
			}
			t.CommitCall = tr.Now()
			err := t.tx.Commit(ctxBg)
			t.CommitRet = tr.Now()
			t.Class = string(seqrun.Class(err))
			if err != nil {
				t.Err = err.Error()
			}
		}(i, t)
	}
	<-ready
	<-ready
	switch order {
	case orders[0]:
		gate = tr.AddGate(&conc.Gate{WaitPoint: "core.updatetx.checked", WaitG: gids[0], SigPoint: "core.updatetx.checked", SigG: gids[1], Timeout: 300 * time.Millisecond})
	case orders[1]:
		gate = tr.AddGate(&conc.Gate{WaitPoint: "core.updatetx.checked", WaitG: gids[0], SigPoint: "core.updatetx.published", SigG: gids[1], Timeout: 300 * time.Millisecond})
	default:
		gate = tr.AddGate(&conc.Gate{WaitPoint: "core.updatetx.checked", WaitG: gids[1], SigPoint: "core.updatetx.published", SigG: gids[0], Timeout: 300 * time.Millisecond})
	}
	close(start)
	wg.Wait()
	b, _ := env.DB.Get(ctxBg, key)
	r.Final[key] = string(b)
	out := gate.Outcome()
	// "timeout" on a tree where check and publication form one critical section means: order not reachable
	c.AddDistinct("window:" + order + "/" + out)
	c.Observe("window orders and gate outcomes", order+" -> "+out)
	c.Count("window_attempts", 1)
	judgeRound(&c, r, map[string]any{"seed": seed, "case": idx, "window": order, "gate": out, "trace": tr.Events()})
	if idx < 3 {
		c.Sample = map[string]any{"window": order, "gate_outcome": out, "classes": []string{r.Txs[0].Class, r.Txs[1].Class}}
	}
	return c
}

// c07Fresh: the very first writes of a fresh database are conflicting commits released together.
func c07Fresh(tier string, seed int64, idx int, scratch string) rt.CaseResult {
	var c rt.CaseResult
	rt.SetWatchdogLimit(25 * time.Second)
	rng := seqrun.Rng(seed, "C07f", idx)
	tr := conc.NewTracer(false)
	tr.Install()
	defer conc.Uninstall()
	for rd := 0; rd < tierN(tier, 10, 12) && len(c.Violations) == 0; rd++ {
		rt.Beat()
		env, err := dbx.Open(dbx.Options{Mode: dbx.Inline, Dir: filepath.Join(scratch, fmt.Sprintf("db%d", rd))})
		if err != nil {
			c.Violate("open-failed", err.Error(), nil)
			return c
		}
		pre := fmt.Sprintf("f%d-r%d-", idx, rd)
		key := pre + "k"
		r := &c07Round{Round: rd, Keys: []string{key}, Initial: "<never written>", Final: map[string]string{}}
		n := 2 + rng.Intn(7)
		for i := 0; i < n; i++ {
			t := &c07Tx{ID: i, Level: 2 + rng.Intn(2), Keys: []string{key}, Val: string(seqrun.Content(fmt.Sprintf("%st%d", pre, i), 16))}
			t.BeginCall = tr.Now()
			t.tx, err = env.DB.Begin(ctxBg, verif.IsoLevel(t.Level))
			t.BeginRet = tr.Now()
			if err != nil {
				c.Violate("begin-failed", err.Error(), nil)
				env.Close()
				return c
			}
			t.tx.Set(ctxBg, key, []byte(t.Val))
			r.Txs = append(r.Txs, t)
		}
		var wg sync.WaitGroup
		var ready atomic.Int32
		for _, t := range r.Txs {
			wg.Add(1)
			go func(t *c07Tx) {
				defer wg.Done()
				ready.Add(1)
				for int(ready.Load()) < n { // spinning barrier: release all commits at the same instant
				}
				t.CommitCall = tr.Now()
				err := t.tx.Commit(ctxBg)
				t.CommitRet = tr.Now()
				t.Class = string(seqrun.Class(err))
				if err != nil {
					t.Err = err.Error()
				}
			}(t)
		}
		wg.Wait()
		b, gerr := env.DB.Get(ctxBg, key)
		if gerr != nil {
			c.Violate("final-read-failed first-commits", gerr.Error(), map[string]any{"round": r})
			env.Close()
			return c
		}
		r.Final[key] = string(b)
		judgeRound(&c, r, map[string]any{"seed": seed, "case": idx, "scenario": "first commits of a fresh database"})
		c.Count("fresh_rounds", 1)
		env.Close()
	}
	if idx == 0 {
		c.Sample = map[string]any{"scenario": "fresh database, 2-8 snapshot transactions write one key, commits released together"}
	}
	return c
}

// c07WriterWindow: an autocommit writer of the contended key is parked right after drawing its
// sequence until the first of two snapshot commits has been published; then the second commits.
// With the sequence drawn inside the store's critical section the first commit cannot get there
// (the gate times out: order not reachable) and both commits conflict with the writer.
func c07WriterWindow(seed int64, idx int, env *dbx.Env, tr *conc.Tracer) rt.CaseResult {
	var c rt.CaseResult
	order := "W.seq-drawn<A.published<W.persisted<B.commit"
	pre := fmt.Sprintf("ww%d-", idx)
	key := pre + "k"
	r := &c07Round{Round: idx, Keys: []string{key}, Initial: string(seqrun.Content(pre+"init", 16)), Final: map[string]string{}}
	env.DB.Set(ctxBg, key, []byte(r.Initial))
	w := &c07W{Key: key, Val: string(seqrun.Content(pre+"w", 16))}
	r.Writer = w
	var gate *conc.Gate
	wdone := make(chan struct{})
	armed := make(chan struct{})
	go func() {
		defer close(wdone)
		gate = tr.AddGate(&conc.Gate{WaitPoint: "core.store.seq", WaitG: conc.Goid(), SigPoint: "core.updatetx.published", Timeout: 150 * time.Millisecond})
		close(armed)
		<-armed
		w.Call = tr.Now()
		env.DB.Set(ctxBg, key, []byte(w.Val))
		w.Ret = tr.Now()
	}()
	<-armed
	gate.WaitReached(2 * time.Second) // the writer has drawn its sequence and is parked
	for i := 0; i < 2; i++ {
		t := &c07Tx{ID: i, Level: 2 + (idx/4+i)%2, Keys: []string{key}, Val: string(seqrun.Content(fmt.Sprintf("%st%d", pre, i), 16))}
		t.BeginCall = tr.Now()
		t.tx, _ = env.DB.Begin(ctxBg, verif.IsoLevel(t.Level))
		t.BeginRet = tr.Now()
		t.tx.Set(ctxBg, key, []byte(t.Val))
		r.Txs = append(r.Txs, t)
	}
	commit := func(t *c07Tx) {
		t.CommitCall = tr.Now()
		err := t.tx.Commit(ctxBg)
		t.CommitRet = tr.Now()
		t.Class = string(seqrun.Class(err))
		if err != nil {
			t.Err = err.Error()
		}
	}
	commit(r.Txs[0])
	<-wdone
	commit(r.Txs[1])
	b, _ := env.DB.Get(ctxBg, key)
	r.Final[key] = string(b)
	out := gate.Outcome()
	c.AddDistinct("window:" + order + "/" + out)
	c.Observe("window orders and gate outcomes", order+" -> "+out)
	c.Count("window_attempts", 1)
	judgeRound(&c, r, map[string]any{"seed": seed, "case": idx, "window": order, "gate": out})
	return c
}
