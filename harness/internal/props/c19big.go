package props

import (
	"bytes"
	"context"
	"fmt"
	"hash/adler32"
	"hash/crc32"
	"hash/fnv"
	"sync"

	"github.com/glebziz/fs_db/pkg/verif"

	"verifharness/internal/rt"
	"verifharness/internal/seqrun"
)

func init() {
	p := Registry["C19"]
	p.Roles["many"] = Role{N: func(t string) int { return tierN(t, 6, 48) }, Case: c19Many}
	p.Roles["parallel"] = Role{N: func(t string) int { return tierN(t, 4, 32) }, Case: c19Parallel}
	p.Rule += " Role many: GetAll over 1 to 5000 records at once (counts around 100, 1024, 2048, 4096 and counts that are not a multiple of any small number): every record must come back as itself, none dropped, none invented. Role parallel: 4-12 goroutines, each with its own repository and provider (as several databases in one process have), encode and decode records with different transaction ids at the same time; every result is compared with the independent codec."
}

// c19Many: decoding many records in one GetAll.
func c19Many(tier string, seed int64, idx int, scratch string) rt.CaseResult {
	var c rt.CaseResult
	rng := seqrun.Rng(seed, "C19m", idx)
	counts := []int{1, 99, 100, 101, 1023, 1025, 2047, 2048, 2049, 2051, 2053, 4099, 3001 + rng.Intn(1999)}
	for ci, m := range counts {
		if tier == "quick" && ci%6 != idx%6 && m > 200 {
			continue
		}
		rt.Beat()
		p := &recProvider{data: map[string][]byte{}}
		want := map[string]verif.File{}
		for j := 0; j < m; j++ {
			kc := keyClasses[rng.Intn(len(keyClasses))]
			f := verif.File{Key: kc.v(rng), Seq: verif.Seq(seqClasses[rng.Intn(len(seqClasses))].v(rng)), TxId: randUUID(rng), ContentId: randUUID(rng)}
			if len(f.Key) > 300 {
				f.Key = f.Key[:300]
			}
			p.data["file/"+f.ContentId] = specEncode(f)
			want[f.ContentId] = f
		}
		c.Evals += int64(m)
		files, err := verif.NewFileRepo(p).GetAll(context.Background())
		if err != nil || len(files) != len(want) {
			c.Violate("decode-many-count", fmt.Sprintf("GetAll of %d records returned %d (%v)", len(want), len(files), err), map[string]any{"records": m})
			return c
		}
		seen := map[string]bool{}
		for _, f := range files {
			w, ok := want[f.ContentId]
			if !ok || f != w || seen[f.ContentId] {
				c.Violate("decode-mismatch among-many-records", fmt.Sprintf("GetAll of %d records: one came back as %s (written as %s, seen before: %v)", m, descFile(f), descFile(w), seen[f.ContentId]), map[string]any{"records": m, "got": descFile(f)})
				return c
			}
			seen[f.ContentId] = true
		}
		c.AddDistinct(fmt.Sprintf("dec-many/%d", m))
	}
	if idx == 0 {
		c.Sample = map[string]any{"record_counts": counts}
	}
	return c
}

// c19Parallel: several repositories in one process at the same time.
func c19Parallel(tier string, seed int64, idx int, scratch string) rt.CaseResult {
	var c rt.CaseResult
	workers := 4 + idx%3*4
	n := tierN(tier, 4000, 20000)
	var mu sync.Mutex
	var wg sync.WaitGroup
	var evals int64
	for w := 0; w < workers; w++ {
		wg.Add(1)
		go func(w int) {
			defer wg.Done()
			rng := seqrun.Rng(seed, "C19p", idx*100+w)
			p := &recProvider{data: map[string][]byte{}}
			repo := verif.NewFileRepo(p)
			tx := randUUID(rng) // one transaction id per goroutine, as one writer per database has
			local := int64(0)
			for i := 0; i < n; i++ {
				if i%64 == 0 {
					rt.Beat()
					tx = randUUID(rng)
				}
				f := verif.File{Key: fmt.Sprintf("w%d-k%d", w, i), Seq: verif.Seq(rng.Uint64()), TxId: tx, ContentId: randUUID(rng)}
				local += 2
				if err := repo.Set(context.Background(), f); err != nil {
					mu.Lock()
					c.Violate("encode-error parallel", err.Error(), nil)
					mu.Unlock()
					return
				}
				got := p.data["file/"+f.ContentId]
				if want := specEncode(f); !bytes.Equal(got, want) {
					mu.Lock()
					if len(c.Violations) < 3 {
						c.Violate("encode-layout parallel-repositories", fmt.Sprintf("%d repositories encoding at once: record %s was stored as %x, layout says %x", workers, descFile(f), trunc(got), trunc(want)), map[string]any{"record": descFile(f), "workers": workers})
					}
					mu.Unlock()
					return
				}
				files, err := repo.GetAll(context.Background())
				if err != nil || len(files) != 1 || files[0] != f {
					mu.Lock()
					if len(c.Violations) < 3 {
						c.Violate("decode-mismatch parallel-repositories", fmt.Sprintf("%d repositories at once: record %s decoded as %s (%v)", workers, descFile(f), descFiles(files), err), map[string]any{"record": descFile(f), "workers": workers})
					}
					mu.Unlock()
					return
				}
				delete(p.data, "file/"+f.ContentId)
			}
			mu.Lock()
			evals += local
			mu.Unlock()
		}(w)
	}
	wg.Wait()
	c.Evals = evals
	c.AddDistinct(fmt.Sprintf("parallel/%d", workers))
	if idx == 0 {
		c.Sample = map[string]any{"goroutines": workers, "records_each": n}
	}
	return c
}

func init() {
	p := Registry["C19"]
	p.Roles["mixed"] = Role{N: func(t string) int { return tierN(t, 4, 32) }, Case: c19Mixed}
	p.Rule += " Role mixed: one record shorter than the header among 2-40 valid ones, at every position of the store's key order: GetAll must refuse the store as a whole. Role collide (with C05 role bulk's database-level twin): pairs of keys that collide under the 32-bit hash functions a cache or an interning table might use (CRC-32 IEEE and Castagnoli, FNV-1/1a, Adler-32, the 31-multiplier string hash, djb2; found by search at run time) are stored side by side: each record must come back under its own key."
}

// c19Mixed: a short record is refused wherever it sits.
func c19Mixed(tier string, seed int64, idx int, scratch string) rt.CaseResult {
	var c rt.CaseResult
	rng := seqrun.Rng(seed, "C19x", idx)
	for rep := 0; rep < tierN(tier, 60, 400); rep++ {
		n := 2 + rng.Intn(39)
		type rec struct {
			id string
			f  verif.File
		}
		recs := make([]rec, n)
		for i := range recs {
			f := verif.File{Key: fmt.Sprintf("k%d", i), Seq: verif.Seq(rng.Uint64()), TxId: randUUID(rng), ContentId: randUUID(rng)}
			recs[i] = rec{f.ContentId, f}
		}
		// position of the bad record in the store's key order (content-id order)
		ids := make([]string, n)
		for i := range recs {
			ids[i] = recs[i].id
		}
		sortStrings(ids)
		pos := []int{0, n - 1, n / 2, rng.Intn(n)}[rep%4]
		p := &recProvider{data: map[string][]byte{}}
		badLen := rng.Intn(40)
		for _, r := range recs {
			b := specEncode(r.f)
			if r.id == ids[pos] {
				b = b[:badLen]
			}
			p.data["file/"+r.id] = b
		}
		c.Evals++
		files, err := verif.NewFileRepo(p).GetAll(context.Background())
		if err == nil {
			c.Violate("short-record-accepted among-valid-records", fmt.Sprintf("%d records, the one at position %d of the key order is %d bytes long (shorter than the header): GetAll returned %d records and no error", n, pos, badLen, len(files)), map[string]any{"records": n, "position": pos, "length": badLen})
			return c
		}
		c.AddDistinct(fmt.Sprintf("mixed/pos=%s", map[int]string{0: "first", 1: "last", 2: "middle", 3: "random"}[rep%4]))
	}
	// colliding keys
	for _, pair := range collidingKeyPairs(seed + int64(idx)) {
		p := &recProvider{data: map[string][]byte{}}
		want := map[string]verif.File{}
		for i, k := range []string{pair.a, "unrelated", pair.b} {
			f := verif.File{Key: k, Seq: verif.Seq(100 + i), TxId: randUUID(rng), ContentId: randUUID(rng)}
			p.data["file/"+f.ContentId] = specEncode(f)
			want[f.ContentId] = f
		}
		c.Evals++
		files, err := verif.NewFileRepo(p).GetAll(context.Background())
		if err != nil || len(files) != 3 {
			c.Violate("decode-many-count colliding-keys", fmt.Sprintf("GetAll of 3 records returned %d (%v)", len(files), err), map[string]any{"hash": pair.hash})
			return c
		}
		for _, f := range files {
			if w := want[f.ContentId]; f != w {
				c.Violate("decode-mismatch colliding-keys hash="+pair.hash, fmt.Sprintf("two keys with the same %s value (%q, %q) in one store: the record of %q came back with key %q", pair.hash, pair.a, pair.b, w.Key, f.Key), map[string]any{"hash": pair.hash, "a": pair.a, "b": pair.b})
				return c
			}
		}
		c.AddDistinct("collide/" + pair.hash)
	}
	if idx == 0 {
		c.Sample = map[string]any{"scenario": "a short record among valid ones; hash-colliding keys"}
	}
	return c
}

func sortStrings(s []string) {
	for i := 1; i < len(s); i++ {
		for j := i; j > 0 && s[j] < s[j-1]; j-- {
			s[j], s[j-1] = s[j-1], s[j]
		}
	}
}

type keyPair struct{ hash, a, b string }

// collidingKeyPairs finds, for each of several 32-bit hash functions, two distinct keys with the
// same hash value (birthday search over keys "session/<16 hex digits>"; a few hundred thousand
// candidates at most).
func collidingKeyPairs(seed int64) []keyPair {
	hashes := []struct {
		name string
		fn   func(string) uint32
	}{
		{"crc32-ieee", func(s string) uint32 { return crc32.ChecksumIEEE([]byte(s)) }},
		{"crc32-castagnoli", func(s string) uint32 { return crc32.Checksum([]byte(s), crc32.MakeTable(crc32.Castagnoli)) }},
		{"fnv32", func(s string) uint32 { h := fnv.New32(); h.Write([]byte(s)); return h.Sum32() }},
		{"fnv32a", func(s string) uint32 { h := fnv.New32a(); h.Write([]byte(s)); return h.Sum32() }},
		{"adler32", func(s string) uint32 { return adler32.Checksum([]byte(s)) }},
		{"times31", func(s string) uint32 {
			var h uint32
			for i := 0; i < len(s); i++ {
				h = h*31 + uint32(s[i])
			}
			return h
		}},
		{"djb2", func(s string) uint32 {
			h := uint32(5381)
			for i := 0; i < len(s); i++ {
				h = h*33 + uint32(s[i])
			}
			return h
		}},
	}
	var out []keyPair
	castagnoli := crc32.MakeTable(crc32.Castagnoli)
	_ = castagnoli
	for hi, h := range hashes {
		rng := seqrun.Rng(seed, "collide", hi)
		seen := map[uint32]string{}
		for i := 0; i < 2_000_000; i++ {
			k := fmt.Sprintf("session/%016x", rng.Uint64())
			v := h.fn(k)
			if o, ok := seen[v]; ok && o != k {
				out = append(out, keyPair{h.name, o, k})
				break
			}
			seen[v] = k
		}
	}
	return out
}
