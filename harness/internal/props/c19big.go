package props

import (
	"bytes"
	"context"
	"fmt"
	"sync"

	"github.com/glebziz/fs_db/pkg/verif"

	"verifharness/internal/rt"
	"verifharness/internal/seqrun"
)

func init() {
	p := Registry["C19"]
	p.Roles["many"] = Role{N: func(t string) int { return tierN(t, 6, 48) }, Case: c19Many}
	p.Roles["parallel"] = Role{N: func(t string) int { return tierN(t, 4, 32) }, Case: c19Parallel}
	p.Rule += " Role many: GetAll over 1 to 5000 records at once (counts around 100, 1024, 2048, 4096 and counts that are not a multiple of any small number): every record must come back as itself, none dropped, none invented. Role parallel: 4-12 goroutines, each with its own repository and provider (as several databases in one process have), encode and decode records with different transaction ids at the same time; every result is compared with the independent codec."
}

// c19Many: decoding many records in one GetAll.
func c19Many(tier string, seed int64, idx int, scratch string) rt.CaseResult {
	var c rt.CaseResult
	rng := seqrun.Rng(seed, "C19m", idx)
	counts := []int{1, 99, 100, 101, 1023, 1025, 2047, 2048, 2049, 2051, 2053, 4099, 3001 + rng.Intn(1999)}
	for ci, m := range counts {
		if tier == "quick" && ci%6 != idx%6 && m > 200 {
			continue
		}
		rt.Beat()
		p := &recProvider{data: map[string][]byte{}}
		want := map[string]verif.File{}
		for j := 0; j < m; j++ {
			kc := keyClasses[rng.Intn(len(keyClasses))]
			f := verif.File{Key: kc.v(rng), Seq: verif.Seq(seqClasses[rng.Intn(len(seqClasses))].v(rng)), TxId: randUUID(rng), ContentId: randUUID(rng)}
			if len(f.Key) > 300 {
				f.Key = f.Key[:300]
			}
			p.data["file/"+f.ContentId] = specEncode(f)
			want[f.ContentId] = f
		}
		c.Evals += int64(m)
		files, err := verif.NewFileRepo(p).GetAll(context.Background())
		if err != nil || len(files) != len(want) {
			c.Violate("decode-many-count", fmt.Sprintf("GetAll of %d records returned %d (%v)", len(want), len(files), err), map[string]any{"records": m})
			return c
		}
		seen := map[string]bool{}
		for _, f := range files {
			w, ok := want[f.ContentId]
			if !ok || f != w || seen[f.ContentId] {
				c.Violate("decode-mismatch among-many-records", fmt.Sprintf("GetAll of %d records: one came back as %s (written as %s, seen before: %v)", m, descFile(f), descFile(w), seen[f.ContentId]), map[string]any{"records": m, "got": descFile(f)})
				return c
			}
			seen[f.ContentId] = true
		}
		c.AddDistinct(fmt.Sprintf("dec-many/%d", m))
	}
	if idx == 0 {
		c.Sample = map[string]any{"record_counts": counts}
	}
	return c
}

// c19Parallel: several repositories in one process at the same time.
func c19Parallel(tier string, seed int64, idx int, scratch string) rt.CaseResult {
	var c rt.CaseResult
	workers := 4 + idx%3*4
	n := tierN(tier, 4000, 20000)
	var mu sync.Mutex
	var wg sync.WaitGroup
	var evals int64
	for w := 0; w < workers; w++ {
		wg.Add(1)
		go func(w int) {
			defer wg.Done()
			rng := seqrun.Rng(seed, "C19p", idx*100+w)
			p := &recProvider{data: map[string][]byte{}}
			repo := verif.NewFileRepo(p)
			tx := randUUID(rng) // one transaction id per goroutine, as one writer per database has
			local := int64(0)
			for i := 0; i < n; i++ {
				if i%64 == 0 {
					rt.Beat()
					tx = randUUID(rng)
				}
				f := verif.File{Key: fmt.Sprintf("w%d-k%d", w, i), Seq: verif.Seq(rng.Uint64()), TxId: tx, ContentId: randUUID(rng)}
				local += 2
				if err := repo.Set(context.Background(), f); err != nil {
					mu.Lock()
					c.Violate("encode-error parallel", err.Error(), nil)
					mu.Unlock()
					return
				}
				got := p.data["file/"+f.ContentId]
				if want := specEncode(f); !bytes.Equal(got, want) {
					mu.Lock()
					if len(c.Violations) < 3 {
						c.Violate("encode-layout parallel-repositories", fmt.Sprintf("%d repositories encoding at once: record %s was stored as %x, layout says %x", workers, descFile(f), trunc(got), trunc(want)), map[string]any{"record": descFile(f), "workers": workers})
					}
					mu.Unlock()
					return
				}
				files, err := repo.GetAll(context.Background())
				if err != nil || len(files) != 1 || files[0] != f {
					mu.Lock()
					if len(c.Violations) < 3 {
						c.Violate("decode-mismatch parallel-repositories", fmt.Sprintf("%d repositories at once: record %s decoded as %s (%v)", workers, descFile(f), descFiles(files), err), map[string]any{"record": descFile(f), "workers": workers})
					}
					mu.Unlock()
					return
				}
				delete(p.data, "file/"+f.ContentId)
			}
			mu.Lock()
			evals += local
			mu.Unlock()
		}(w)
	}
	wg.Wait()
	c.Evals = evals
	c.AddDistinct(fmt.Sprintf("parallel/%d", workers))
	if idx == 0 {
		c.Sample = map[string]any{"goroutines": workers, "records_each": n}
	}
	return c
}
