// Command vcheck runs the property drivers.
//
//	vcheck run <Cxx> <quick|thorough>
//	vcheck child <role> <Cxx> <tier> <seed> <lo> <hi> <out> <scratch>
package main

import (
	"fmt"
	"os"
	"path/filepath"
	"sort"
	"strconv"

	"verifharness/internal/props"
	"verifharness/internal/rt"
)

func main() {
	if len(os.Args) < 2 {
		usage()
	}
	switch os.Args[1] {
	case "run":
		if len(os.Args) < 4 {
			usage()
		}
		os.Exit(run(os.Args[2], os.Args[3]))
	case "child":
		// child <role> <prop> <tier> <seed> lo hi out scratch
		a := os.Args[2:]
		if len(a) < 8 {
			usage()
		}
		p := props.Registry[a[1]]
		if p == nil {
			fmt.Fprintln(os.Stderr, "unknown property", a[1])
			os.Exit(2)
		}
		role, ok := p.Roles[a[0]]
		if !ok {
			fmt.Fprintln(os.Stderr, "unknown role", a[0])
			os.Exit(2)
		}
		seed, _ := strconv.ParseInt(a[3], 10, 64)
		rt.StartWatchdog()
		rt.ChildMain(a[4:], func(idx int, scratch string) rt.CaseResult {
			return role.Case(a[2], seed, idx, scratch)
		})
	default:
		if h, ok := props.Extra[os.Args[1]]; ok {
			os.Exit(h(os.Args[2:]))
		}
		usage()
	}
}

func usage() {
	fmt.Fprintln(os.Stderr, "usage: vcheck run <Cxx> <quick|thorough>")
	os.Exit(2)
}

func run(id, tier string) int {
	p := props.Registry[id]
	if p == nil {
		fmt.Fprintln(os.Stderr, "unknown property", id)
		return 2
	}
	if tier != "quick" && tier != "thorough" {
		fmt.Fprintln(os.Stderr, "tier must be quick or thorough")
		return 2
	}
	r := rt.NewRun(p.ID, tier, p.Level)
	r.Rule = p.Rule
	r.Assumptions = p.Assumptions
	if p.Custom != nil {
		p.Custom(r, tier)
	} else {
		order := p.Order
		if len(order) == 0 {
			for k := range p.Roles {
				order = append(order, k)
			}
			sort.Strings(order)
		}
		self, _ := os.Executable()
		for _, name := range order {
			// diagnostic runs of a single role (never used by the registered commands)
			if only := os.Getenv("VERIF_ONLY_ROLE"); only != "" && only != name {
				continue
			}
			role := p.Roles[name]
			bin := self
			if role.Race {
				bin = filepath.Join(filepath.Dir(self), "vcheck.race")
			}
			r.RunChildren(rt.ChildSpec{Binary: bin, Role: name, N: role.N(tier), Procs: role.Procs, Batch: role.Batch, Env: role.Env})
		}
	}
	if p.Post != nil {
		p.Post(r, tier)
	}
	return r.Finish()
}
